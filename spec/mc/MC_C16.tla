------------------------------ MODULE MC_C16 ------------------------------
(* C16: evaluation.  All typed diagrams over the test signature within the  *)
(* bound - hence all numberings of each - single-writer ones for the value   *)
(* clause and all cyclic ones for the refusal clause.                        *)
EXTENDS Domains, Emit
CONSTANTS N, E, Labels, IL, CK, CLabels, CMaxN
VARIABLES stage, f
vars == <<stage, f>>
P == <<"C16">>
TypedEdges(n) == UNION {{Edge(l, s, t) : s \in SeqsOfLen(Range0(n), Arity(l)), t \in SeqsOfLen(Range0(n), Coarity(l))} : l \in Labels}
X1(k) == [i \in 1 .. k |-> 2 * i + 1]
X2(k) == [i \in 1 .. k |-> (250 + 7 * i) % 256]
Emits(d) ==
  (SingleWriter(d) \/ ~DepAcyclic(d)) =>
     /\ EmitCase("strict.eval", P, [f |-> Pack(d), inputs |-> X1(Len(d.s))])
     /\ (Len(d.s) > 0 /\ DepAcyclic(d) => EmitCase("strict.eval", P, [f |-> Pack(d), inputs |-> X2(Len(d.s))]))
Init == stage = 0 /\ f = EmptyOH
LoadW == stage = 0 /\ stage' = 3 /\ \E n \in 0 .. N : f' = OH([i \in 1 .. n |-> 0], <<>>, <<>>, <<>>)
LoadE == stage = 3 /\ stage' = 2 /\ \E e \in SeqsUpTo(TypedEdges(NN(f)), E) : f' = OH(f.w, e, <<>>, <<>>)
LoadI == stage = 2 /\ stage' = 1 /\ \E s \in SeqsUpTo(Range0(NN(f)), IL), t \in SeqsUpTo(Range0(NN(f)), IL) : f' = OH(f.w, f.e, s, t) /\ Emits(f')
\* larger circuits, cheaply: all monogamous circuits with at most CK operations (any wiring, any edge order,
\* any permutation of the interface): diamonds of unequal depth, fan-out through copies, several outputs
LoadLabels == stage = 0 /\ stage' = 4 /\ \E ls \in SeqsUpTo(CLabels, CK), ni \in 0 .. 2 :
   LET n == ni + SumSeq([k \in 1 .. Len(ls) |-> Coarity(ls[k])]) IN
   Len(ls) >= 2 /\ n <= CMaxN /\ n >= SumSeq([k \in 1 .. Len(ls) |-> Arity(ls[k])]) /\ f' = OH(<<>>, <<>>, ls, <<ni, n>>)
LoadWiring == stage = 4 /\ stage' = 1 /\ \E p \in Perms0(f.t[2]) : f' = Circuit(f.s, f.t[1], p) /\ Emits(f')
Next == LoadW \/ LoadE \/ LoadI \/ LoadLabels \/ LoadWiring
Spec == Init /\ [][Next]_vars

\* transcription of eval_order: memory array, one step per layer
RECURSIVE RunLayers(_, _, _, _)
RunLayers(d, order, mem, k) ==
  IF k > SetMax({0} \cup RangeOf(order)) THEN mem
  ELSE LET ops == {i \in 1 .. NE(d) : order[i] = k}
           outs == [i \in ops |-> Apply(d.e[i].l, Thru(d.e[i].s, mem))]
           mem2 == [v \in 1 .. NN(d) |->
                      IF \E i \in ops : \E j \in 1 .. Len(d.e[i].t) : d.e[i].t[j] = v - 1
                      THEN LET i == CHOOSE i \in ops : \E j \in 1 .. Len(d.e[i].t) : d.e[i].t[j] = v - 1 IN outs[i][PosIn(d.e[i].t, v - 1)]
                      ELSE mem[v]]
       IN RunLayers(d, order, mem2, k + 1)
LayeredEval(d, x) ==
  LET k == KahnRef(OpAdjacencyRef(d))
      mem0 == [v \in 1 .. NN(d) |-> IF \E i \in 1 .. Len(d.s) : d.s[i] = v - 1 THEN x[PosIn(d.s, v - 1)] ELSE 0]
  IN Thru(d.t, RunLayers(d, k.order, mem0, 0))
\* the layered evaluation computes the reference function
LayeredTheorem == stage = 1 /\ SingleWriter(f) /\ DepAcyclic(f) /\ NE(f) > 0 => LayeredEval(f, X1(Len(f.s))) = EvalRef(f, X1(Len(f.s)))
\* the reference function does not depend on the numbering of nodes and hyperedges
PermNodes(d, p) == OH(d.w, [i \in 1 .. NE(d) |-> MapE(d.e[i], p)], Thru(d.s, p), Thru(d.t, p))
PermEdges(d, p) == OH(d.w, [i \in 1 .. NE(d) |-> d.e[p[i] + 1]], d.s, d.t)
NumberingTheorem ==
  stage = 1 /\ SingleWriter(f) /\ DepAcyclic(f) /\ NE(f) > 0 =>
    /\ \A p \in Perms0(NN(f)) : EvalRef(PermNodes(f, p), X1(Len(f.s))) = EvalRef(f, X1(Len(f.s)))
    /\ \A p \in Perms0(NE(f)) : EvalRef(PermEdges(f, p), X1(Len(f.s))) = EvalRef(f, X1(Len(f.s)))
=============================================================================
