SPECIFICATION Spec
CONSTANTS N = 1  E = 2  A = 1  I = 1  Q = 1  NL = {0}  EL = {0}  PN = 1
INVARIANTS Commutes
CHECK_DEADLOCK FALSE
