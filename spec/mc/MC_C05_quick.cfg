SPECIFICATION Spec
CONSTANTS NSeg = 2  SegL = 1  V = 2
INVARIANTS ValidateTheorem
CHECK_DEADLOCK FALSE
