SPECIFICATION Spec
CONSTANTS L = 4  V = 3  SL = 4
INVARIANTS DefaultMethods SegSumFormula
CHECK_DEADLOCK FALSE
