SPECIFICATION Spec
CONSTANTS L = 5  V = 4  SL = 4
INVARIANTS DefaultMethods SegSumFormula
CHECK_DEADLOCK FALSE
