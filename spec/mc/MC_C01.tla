------------------------------ MODULE MC_C01 ------------------------------
(* C01: sequential composition is the gluing.  Enumerates all pairs (f, g) *)
(* in the bound; checks the design theorems on the reference operators and  *)
(* emits every pair as a case for the implementation.                       *)
EXTENDS Domains, Emit
CONSTANTS N, E, A, I, NL, EL
VARIABLES stage, f, g
vars == <<stage, f, g>>
D == Diagrams(N, E, A, I, NL, EL)

Init == stage = 0 /\ f = EmptyOH /\ g = EmptyOH
ChooseF == stage = 0 /\ f' \in D /\ g' = g /\ stage' = 1
ChooseG == /\ stage = 1 /\ g' \in D /\ f' = f /\ stage' = 2
           /\ EmitCase("strict.compose", <<"C01", "C05">>, [f |-> Pack(f), g |-> Pack(g')])
           \* the operator form on every pair for which the order of the operands matters
           /\ (f = g' \/ Composable(f, g') \/ Composable(g', f) => EmitCase("strict.compose_shr", <<"C01", "C05">>, [f |-> Pack(f), g |-> Pack(g')]))
           /\ (f = g' => EmitCase("strict.source", <<"C05">>, [f |-> Pack(f)]) /\ EmitCase("strict.target", <<"C05">>, [f |-> Pack(f)]))
           \* the middle step of composition on its own: quotient the juxtaposition by the canonical coequalizer,
           \* and by the everything-to-one map (refused unless all labels agree)
           /\ (Composable(f, g') /\ NN(f) + NN(g') > 0 =>
                 LET h == TensorRef(f, g')  q == QuotMap(NN(h), GluePairs(f, g')) IN
                 /\ EmitCase("hyper.coequalize_vertices", <<"C01", "C05">>, [h |-> PackH(h), q |-> FF(q, NumClasses(q))])
                 /\ EmitCase("hyper.coequalize_vertices", <<"C01", "C05">>, [h |-> PackH(h), q |-> FF([i \in 1 .. NN(h) |-> 0], 1)])
                 \* a map whose domain is not the node set is refused, not applied
                 /\ EmitCase("hyper.coequalize_vertices", <<"C01", "C05">>, [h |-> PackH(h), q |-> FF([i \in 1 .. NN(h) + 1 |-> 0], 1)]))
Next == ChooseF \/ ChooseG
Spec == Init /\ [][Next]_vars

\* independent statement of "identified iff forced": TC of the symmetric glue relation
SymPairs(P) == P \cup {<<p[2], p[1]>> : p \in P}
ForcedSame(P, a, b) == a = b \/ <<a, b>> \in TC(SymPairs(P))
GluingTheorem ==
  (stage = 2 /\ Composable(f, g)) =>
    LET r == ComposeRef(f, g)
        n == NN(f) + NN(g)
        P == GluePairs(f, g)
        q == QuotMap(n, P)
    IN /\ WFPlain(r)
       /\ \A a, b \in Range0(n) : (q[a + 1] = q[b + 1]) <=> ForcedSame(P, a, b)   \* nothing else identified
       /\ RangeOf(q) = Range0(NN(r))                                            \* q is onto the new nodes
       /\ NE(r) = NE(f) + NE(g)
       /\ \A i \in 1 .. NE(f) : r.e[i] = MapE(f.e[i], q)                           \* edges keep label and lists
       /\ \A i \in 1 .. NE(g) : r.e[NE(f) + i] = MapE(ShiftE(g.e[i], NN(f)), q)
       /\ r.s = Thru(f.s, q) /\ r.t = Thru(Shift(g.t, NN(f)), q)
       /\ SrcType(r) = SrcType(f) /\ TgtType(r) = TgtType(g)
       /\ \A a \in Range0(n) : r.w[q[a + 1] + 1] = (f.w \o g.w)[a + 1]             \* labels carried
\* composing through the canonical representation is stable: Abs . Pack = id
PackAbs == stage >= 1 => Abs(Pack(f)) = f /\ WFStrict(Pack(f))
=============================================================================
