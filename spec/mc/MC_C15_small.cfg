SPECIFICATION Spec
CONSTANTS ShapeName = "q15"  NL = {0}  EL = {0}  Fam = {"layer", "hooks", "pred", "predhooks"}  I = 0
INVARIANTS KahnTheorem AdjacencyTheorem PredicateTheorem
CHECK_DEADLOCK FALSE
