SPECIFICATION Spec
CONSTANTS N3 = 1  N2 = 2  N4 = 1  E = 1  A = 1  I = 1  NL = {0, 1}  EL = {0}  TL = 3  TNL = {0, 1}  NL4 = {0}  MidN = 2  MidI = 2
INVARIANTS Laws
CHECK_DEADLOCK FALSE
