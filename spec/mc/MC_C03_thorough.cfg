SPECIFICATION Spec
CONSTANTS N3 = 2  N2 = 2  N4 = 1  E = 1  A = 1  I = 2  NL = {0, 1}  EL = {0}  TL = 3  TNL = {0, 1}
INVARIANTS Laws
CHECK_DEADLOCK FALSE
