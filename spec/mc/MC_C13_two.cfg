SPECIFICATION Spec
CONSTANTS N = 1  E = 2  A = 1  I = 1  NL = {0}  EL = {0, 1}  ObjL = 1  TL = {0, 1}  IN_ = 1  IE = 1  IA = 1  IEL = {0}  Fam = {"native", "split"}  Q = 1  LObjL = 1  LIN = 1
INVARIANTS DecompositionTheorem SplitTheorem
CHECK_DEADLOCK FALSE
