SPECIFICATION Spec
CONSTANTS GN = 2  GE = 1  HN = 2  HE_ = 2  A = 1  NL = {0, 1}  EL = {0}  CN = 4  CE = 2  CA = 1
INVARIANTS SearchTheorem InclusionTheorem
CHECK_DEADLOCK FALSE
