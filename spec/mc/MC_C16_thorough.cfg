SPECIFICATION Spec
CONSTANTS N = 3  E = 3  Labels = {1, 2, 3, 4, 6, 9, 12}  IL = 1
INVARIANTS LayeredTheorem NumberingTheorem
CHECK_DEADLOCK FALSE
