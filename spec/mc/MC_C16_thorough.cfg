SPECIFICATION Spec
CONSTANTS N = 3  E = 2  Labels = {1, 2, 3, 4, 6, 9, 12}  IL = 2  CK = 3  CLabels = {1, 2, 3, 4, 5, 6}  CMaxN = 6
INVARIANTS LayeredTheorem NumberingTheorem
CHECK_DEADLOCK FALSE
