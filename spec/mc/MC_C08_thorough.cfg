SPECIFICATION Spec
CONSTANTS NSeg = 3  SegL = 2  V = 2  ScriptL = 5
INVARIANTS PackLaws IterLaws
CHECK_DEADLOCK FALSE
