SPECIFICATION Spec
CONSTANTS N = 5  Q = 3  NL = {0, 1}
INVARIANTS QuotientTheory
CHECK_DEADLOCK FALSE
