------------------------------ MODULE MC_C18 ------------------------------
(* C18: hypergraph morphisms: all pairs of small hypergraphs with all pairs  *)
(* of tables (natural or not, typed or mistyped); monomorphism; convexity of  *)
(* all sub-hypergraph inclusions.                                            *)
EXTENDS Domains, Emit
CONSTANTS GN, GE, HN, HE_, A, NL, EL, CN, CE, CA
VARIABLES stage, kind, g, h, m
vars == <<stage, kind, g, h, m>>
P == <<"C18">>
Gs == Hypergraphs(GN, GE, A, NL, EL)
Hs == Hypergraphs(HN, HE_, A, NL, EL)
Cs == Hypergraphs(CN, CE, CA, {0}, {0})            \* targets for convexity
HGof(p) == PackH(p)
\* all pairs of tables of the right length, codomain right or off by one
Maps(gg, hh) == {[w |-> FF(wt, wn), x |-> FF(xt, xn)] :
                   wn \in {NN(hh), NN(hh) + 1}, xn \in {NE(hh), NE(hh) + 1},
                   wt \in SeqsOfLen(Range0(NN(hh) + 1), NN(gg)), xt \in SeqsOfLen(Range0(NE(hh) + 1), NE(gg))}
WFMaps(gg, hh) == {mm \in Maps(gg, hh) : WFFF(mm.w) /\ WFFF(mm.x)}
\* sub-hypergraph inclusions: a set of hyperedges and a set of nodes containing their incident nodes
Touched(hh, ES) == UNION {RangeOf(hh.e[i].s) \cup RangeOf(hh.e[i].t) : i \in ES}
Inclusions(hh) == {[ns |-> ns, es |-> es] : es \in SUBSET (1 .. NE(hh)), ns \in SUBSET Range0(NN(hh))}
Sub(hh, inc) ==
  LET nseq == SetToSortedSeq(inc.ns)  eseq == SetToSortedSeq(inc.es)
      pos(v) == CHOOSE k \in 1 .. Len(nseq) : nseq[k] = v
  IN [g |-> OH([k \in 1 .. Len(nseq) |-> hh.w[nseq[k] + 1]],
               [k \in 1 .. Len(eseq) |-> Edge(hh.e[eseq[k]].l, [j \in 1 .. Len(hh.e[eseq[k]].s) |-> pos(hh.e[eseq[k]].s[j]) - 1],
                                              [j \in 1 .. Len(hh.e[eseq[k]].t) |-> pos(hh.e[eseq[k]].t[j]) - 1])], <<>>, <<>>),
      w |-> FF(nseq, NN(hh)), x |-> FF([k \in 1 .. Len(eseq) |-> eseq[k] - 1], NE(hh))]
Args(gg, hh, mm) == [source |-> HGof(gg), target |-> HGof(hh), w |-> mm.w, x |-> mm.x]
Init == stage = 0 /\ kind = "none" /\ g = EmptyOH /\ h = EmptyOH /\ m = 0
Start == stage = 0 /\ kind' \in {"all", "incl"} /\ stage' = 1 /\ UNCHANGED <<g, h, m>>
LoadH == stage = 1 /\ stage' = 2 /\ UNCHANGED <<kind, g, m>> /\ \E hh \in (IF kind = "all" THEN Hs ELSE Cs) : h' = hh
LoadG == /\ stage = 2 /\ kind = "all" /\ stage' = 3 /\ UNCHANGED <<kind, h, m>> /\ \E gg \in Gs : g' = gg
LoadM == /\ stage = 3 /\ kind = "all" /\ stage' = 4 /\ UNCHANGED <<kind, g, h>>
         /\ \E mm \in WFMaps(g, h) : m' = mm /\ EmitCase("arrow.new", P, Args(g, h, mm))
                /\ EmitCase("arrow.is_monomorphism", P, Args(g, h, mm))
                /\ (IsMorphism(g, h, mm.w, mm.x) => EmitCase("arrow.is_convex_subgraph", P, Args(g, h, mm)))
LoadInc == /\ stage = 2 /\ kind = "incl" /\ stage' = 4 /\ UNCHANGED <<kind, h>>
           /\ \E inc \in Inclusions(h) : Touched(h, inc.es) \subseteq inc.ns /\
                LET sb == Sub(h, inc) IN g' = sb.g /\ m' = [w |-> sb.w, x |-> sb.x]
                  /\ EmitCase("arrow.is_convex_subgraph", P, Args(sb.g, h, [w |-> sb.w, x |-> sb.x]))
                  /\ EmitCase("arrow.new", P, Args(sb.g, h, [w |-> sb.w, x |-> sb.x]))
Next == Start \/ LoadH \/ LoadG \/ LoadM \/ LoadInc
Spec == Init /\ [][Next]_vars
\* the two-layer search decides convexity as defined by brute force over paths; inclusions are monomorphisms
SearchTheorem ==
  stage = 4 /\ IsMorphism(g, h, m.w, m.x) => (ConvexSearch(h, m.w, m.x) <=> ConvexRef(h, m.w, m.x))
InclusionTheorem == stage = 4 /\ kind = "incl" => IsMorphism(g, h, m.w, m.x) /\ IsMono(m.w, m.x)
=============================================================================
