SPECIFICATION Spec
CONSTANTS N = 2  E = 2  A = 1  I = 1  NL = {0}  EL = {0}
INVARIANTS GluingTheorem PackAbs
CHECK_DEADLOCK FALSE
