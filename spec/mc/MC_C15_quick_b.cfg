SPECIFICATION Spec
CONSTANTS ShapeName = "q15b"  NL = {0}  EL = {0}  Fam = {"layer"}  I = 0
INVARIANTS KahnTheorem AdjacencyTheorem
CHECK_DEADLOCK FALSE
