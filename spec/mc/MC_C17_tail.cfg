SPECIFICATION Spec
CONSTANTS ShapeName = "tail"  NL = {0}  EL = {0}  Fam = {"pred"}  I = 0
INVARIANTS PredicateTheorem
CHECK_DEADLOCK FALSE
