SPECIFICATION Spec
CONSTANTS GN = 1  GE = 1  HN = 2  HE_ = 1  A = 1  NL = {0}  EL = {0}  CN = 3  CE = 2  CA = 1
INVARIANTS SearchTheorem InclusionTheorem
CHECK_DEADLOCK FALSE
