SPECIFICATION Spec
CONSTANTS ShapeName = "q15"  NL = {0}  EL = {0}  Fam = {"layer", "hooks"}  I = 0
INVARIANTS KahnTheorem AdjacencyTheorem
CHECK_DEADLOCK FALSE
