SPECIFICATION Spec
CONSTANTS L = 3  MaxV = 3  NL = {0, 1}  N = 2  E = 2  A = 2  I = 1  Fam = {"script", "forget"}  BinK = {"add", "mul", "xor", "sub", "and", "or", "div", "shl", "shr"}
INVARIANTS BuildTheorem ForgetTheorem
CHECK_DEADLOCK FALSE
