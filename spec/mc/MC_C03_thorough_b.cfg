SPECIFICATION Spec
CONSTANTS N3 = 2  N2 = 1  N4 = 0  E = 1  A = 1  I = 1  NL = {0}  EL = {0}  TL = 1  TNL = {0}  NL4 = {0}  MidN = 2  MidI = 2
INVARIANTS Laws
CHECK_DEADLOCK FALSE
