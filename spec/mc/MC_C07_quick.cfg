SPECIFICATION Spec
CONSTANTS L = 4  V = 3  SL = 3
INVARIANTS DefaultMethods SegSumFormula
CHECK_DEADLOCK FALSE
