SPECIFICATION Spec
CONSTANTS N = 2  E = 1  A = 1  I = 1  NL = {0, 1}  EL = {0}  NSeg = 2  SegL = 2  V = 2
INVARIANTS ChoiceIndependence
CHECK_DEADLOCK FALSE
