SPECIFICATION Spec
CONSTANTS N = 2  E = 2  Labels = {1, 3, 4, 5, 6}  IL = 1  CK = 2  CLabels = {1, 3, 4, 6}  CMaxN = 4
INVARIANTS LayeredTheorem NumberingTheorem
CHECK_DEADLOCK FALSE
