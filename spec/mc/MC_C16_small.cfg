SPECIFICATION Spec
CONSTANTS N = 2  E = 2  Labels = {1, 3, 4, 5, 6}  IL = 1
INVARIANTS LayeredTheorem NumberingTheorem
CHECK_DEADLOCK FALSE
