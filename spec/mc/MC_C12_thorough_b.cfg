SPECIFICATION Spec
CONSTANTS N = 2  E = 1  A = 1  I = 1  NL = {0}  EL = {0}  ObjL = 2  TL = {0, 1}  IN_ = 2  IE = 1  IA = 2  IEL = {0}  Fam = {"strict", "dyn"}  Q = 1  LObjL = 1  LIN = 1
INVARIANTS DecompositionTheorem
CHECK_DEADLOCK FALSE
