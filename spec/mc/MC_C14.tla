------------------------------ MODULE MC_C14 ------------------------------
(* C14: optics.  (a) typing / functoriality with table-driven optics          *)
(* (forward functor, reverse functor, residuals enumerated by TLC);           *)
(* (b) the derivative clause: all monogamous acyclic polynomial circuits with  *)
(* at most K operations (any wiring, any edge order) under the standard         *)
(* reverse-derivative lenses.                                                   *)
EXTENDS Domains, Emit
CONSTANTS N, E, A, I, ObjL, ML, K, MaxI, MaxN, Fam, Q, OL
VARIABLES stage, kind, f, g, T
vars == <<stage, kind, f, g, T>>
D == Diagrams(N, E, A, I, OL, {0})          \* OL: the generating objects of the source theory
NoT == [fwd |-> [obj |-> <<>>, ops |-> <<>>], rev |-> [obj |-> <<>>, ops |-> <<>>], residual |-> <<>>]
TJson(TT) == [fwd |-> [obj |-> TT.fwd.obj, ops |-> [i \in 1 .. Len(TT.fwd.ops) |-> [l |-> TT.fwd.ops[i].l, a |-> TT.fwd.ops[i].a, b |-> TT.fwd.ops[i].b, img |-> Pack(TT.fwd.ops[i].img)]]],
              rev |-> [obj |-> TT.rev.obj, ops |-> [i \in 1 .. Len(TT.rev.ops) |-> [l |-> TT.rev.ops[i].l, a |-> TT.rev.ops[i].a, b |-> TT.rev.ops[i].b, img |-> Pack(TT.rev.ops[i].img)]]],
              residual |-> TT.residual]
KeysOf(d) == {[l |-> d.e[i].l, a |-> Lab(d, d.e[i].s), b |-> Lab(d, d.e[i].t)] : i \in 1 .. NE(d)}
Keys == IF kind = "laws" THEN KeysOf(f) \cup KeysOf(g) ELSE KeysOf(f)
HasKey(TT, k) == FHasOp(TT.fwd, k.l, k.a, k.b)
Done(TT) == \A k \in Keys : HasKey(TT, k)
NextKey == CHOOSE k \in Keys : ~HasKey(T, k)
\* candidate images of a given type: everything collapsed on one node (with or without a loop
\* operation), a fresh operation on distinct nodes, and identity wires
OneNode(ta, tb, loop) == OH(IF ta \o tb = <<>> /\ ~loop THEN <<>> ELSE <<0>>, IF loop THEN <<Edge(0, <<0>>, <<0>>)>> ELSE <<>>,
                           [i \in 1 .. Len(ta) |-> 0], [i \in 1 .. Len(tb) |-> 0])
Cands(ta, tb) == IF kind = "laws" THEN {OneNode(ta, tb, FALSE), SingletonRef(9, ta, tb)}
                 ELSE {OneNode(ta, tb, FALSE), OneNode(ta, tb, TRUE), SingletonRef(9, ta, tb)} \cup (IF ta = tb THEN {IdentityRef(ta)} ELSE {})
ObjLen == IF kind = "laws" THEN 1 ELSE ObjL
P == <<"C14", "C05">>
Em(flag, op, args) == IF flag \in Fam THEN EmitCase(op, P, args) ELSE TRUE
Emits(TT) ==
  IF kind = "laws" THEN Em("laws", "optic.laws", [optic |-> TJson(TT), f |-> Pack(f), g |-> Pack(g)])
  ELSE /\ Em("typing", "optic.map_arrow", [optic |-> TJson(TT), f |-> Pack(f)])
       /\ Em("typing", "optic.map_adapted", [optic |-> TJson(TT), f |-> Pack(f)])
       /\ Em("lax", "laxf.optic_map_arrow", [optic |-> TJson(TT), f |-> PlainToLax(f)])
       /\ Em("lax", "laxf.optic_map_adapted", [optic |-> TJson(TT), f |-> PlainToLax(f)])
(* ---- circuits ---- *)
X1(k) == [i \in 1 .. k |-> 2 * i + 1]
X2(k) == [i \in 1 .. k |-> (250 + 7 * i) % 256]
Init == stage = 0 /\ kind = "none" /\ f = EmptyOH /\ g = EmptyOH /\ T = NoT
Start == stage = 0 /\ stage' = 1 /\ UNCHANGED <<f, g, T>>
         /\ kind' \in ((IF "deriv" \in Fam THEN {"deriv"} ELSE {}) \cup (IF "typing" \in Fam \/ "lax" \in Fam THEN {"apply"} ELSE {}) \cup (IF "laws" \in Fam THEN {"laws"} ELSE {}))
LoadF == stage = 1 /\ kind # "deriv" /\ stage' = 2 /\ UNCHANGED <<kind, g, T>> /\ \E d \in D : f' = d
LoadG == stage = 2 /\ stage' = 3 /\ UNCHANGED <<kind, f, T>> /\ (IF kind = "laws" THEN \E d \in D : NN(d) <= Q /\ NN(f) <= Q /\ g' = d ELSE g' = g)
LoadObj == stage = 3 /\ UNCHANGED <<kind, f, g>> /\
   \E fo \in [1 .. Cardinality(OL) -> SeqsUpTo({0}, ObjLen)], ro \in [1 .. Cardinality(OL) -> SeqsUpTo({0}, ObjLen)], mm \in SeqsUpTo({0}, ML) :
      LET T1 == [fwd |-> [obj |-> fo, ops |-> <<>>], rev |-> [obj |-> ro, ops |-> <<>>], residual |-> <<[l |-> 0, m |-> mm]>>] IN
      T' = T1 /\ (IF Done(T1) THEN stage' = 5 /\ Emits(T1) ELSE stage' = 4)
LoadImg == stage = 4 /\ UNCHANGED <<kind, f, g>> /\ LET k == NextKey  m == Residual(T, k.l) IN
   \E fi \in Cands(FType(T.fwd, k.a), FType(T.fwd, k.b) \o m), ri \in Cands(m \o FType(T.rev, k.b), FType(T.rev, k.a)) :
      LET T1 == [T EXCEPT !.fwd.ops = Append(@, [l |-> k.l, a |-> k.a, b |-> k.b, img |-> fi]),
                          !.rev.ops = Append(@, [l |-> k.l, a |-> k.a, b |-> k.b, img |-> ri])] IN
      T' = T1 /\ (IF Done(T1) THEN stage' = 5 /\ Emits(T1) ELSE stage' = 4)
\* derivative clause: label sequence, then number of inputs, then the wiring
LoadLabels == stage = 1 /\ kind = "deriv" /\ stage' = 6 /\ UNCHANGED <<kind, g, T>> /\
   \E ls \in SeqsUpTo(PolyLabels, K), ni \in 0 .. MaxI :
      LET n == ni + SumSeq([k \in 1 .. Len(ls) |-> Coarity(ls[k])]) IN
      n <= MaxN /\ n >= SumSeq([k \in 1 .. Len(ls) |-> Arity(ls[k])]) /\ f' = OH(<<>>, <<>>, ls, <<ni, n>>)
LoadWiring == stage = 6 /\ stage' = 5 /\ UNCHANGED <<kind, g>> /\ T' = StdLensTable /\
   \E p \in Perms0(f.t[2]) : LET c == Circuit(f.s, f.t[1], p) IN
      /\ DepAcyclic(c) /\ f' = c
      /\ LET k == Len(c.s) + Len(c.t) IN
         Em("deriv", "optic.eval_adapted", [optic |-> TJson(StdLensTable), f |-> Pack(c), inputs |-> <<X1(k), X2(k)>>])
Next == Start \/ LoadF \/ LoadG \/ LoadObj \/ LoadImg \/ LoadLabels \/ LoadWiring
Spec == Init /\ [][Next]_vars

TypingTheorem ==
  stage = 5 /\ kind = "apply" =>
    /\ OpticApplicable(T, f)
    /\ LET c == OpticArrow(T, f)  ad == AdaptRef(T, c, SrcType(f), TgtType(f)) IN
       /\ WFPlain(c) /\ SrcType(c) = ILeave(T, SrcType(f)) /\ TgtType(c) = ILeave(T, TgtType(f))
       /\ WFPlain(ad) /\ SrcType(ad) = FType(T.fwd, SrcType(f)) \o FType(T.rev, TgtType(f))
       /\ TgtType(ad) = FType(T.fwd, TgtType(f)) \o FType(T.rev, SrcType(f))
FunctorialityTheorem ==
  stage = 5 /\ kind = "laws" =>
    /\ Iso(OpticArrow(T, TensorRef(f, g)), TensorRef(OpticArrow(T, f), OpticArrow(T, g)))
    /\ (Composable(f, g) => Iso(OpticArrow(T, ComposeRef(f, g)), ComposeRef(OpticArrow(T, f), OpticArrow(T, g))))
\* reverse-mode differentiation by optic composition obeys the chain rule (on the specification)
ChainRule ==
  stage = 5 /\ kind = "deriv" =>
    /\ Monogamous(f) /\ NodeAcyclic(f)
    /\ LET ad == AdaptRef(StdLensTable, OpticArrow(StdLensTable, f), SrcType(f), TgtType(f))
           n == Len(f.s)  m == Len(f.t) IN
       /\ Monogamous(ad) /\ NodeAcyclic(ad)
       /\ Len(ad.s) = n + m /\ Len(ad.t) = m + n
       /\ \A xs \in {X1(n + m), X2(n + m)} :
             EvalRef(ad, xs) = EvalRef(f, SubSeq(xs, 1, n)) \o RevDerivRef(f, SubSeq(xs, 1, n), SubSeq(xs, n + 1, n + m))
=============================================================================
