------------------------------ MODULE MC_C10 ------------------------------
(* C10: lax and strict representations agree and convert losslessly.        *)
EXTENDS Domains, Emit
CONSTANTS N, E, A, I, Q, NL, EL, PN
VARIABLES stage, kind, r
vars == <<stage, kind, r>>
L1 == LaxDiagrams(N, E, A, I, Q, NL, EL)
L2 == LaxDiagrams(PN, E, A, I, Q, NL, EL)
S1 == Diagrams(N, E, A, I, NL, EL)
P == <<"C10", "C05">>
Init == stage = 0 /\ kind = "none" /\ r = <<>>
Start == stage = 0 /\ kind' \in {"lax1", "strict1", "lax2", "sing"} /\ r' = r /\ stage' = 1
Dom == CASE kind = "lax1" -> L1 [] kind = "strict1" -> S1 [] kind = "lax2" -> L2 [] kind = "sing" -> SeqsUpTo(NL, 3) [] OTHER -> {}
Depth == CASE kind = "lax1" -> 1 [] kind = "strict1" -> 1 [] kind = "lax2" -> 2 [] kind = "sing" -> 2 [] OTHER -> 99
Emits(rr) ==
  CASE kind = "lax1" ->
         /\ (LaxConsistent(rr[1]) => /\ EmitCase("lax.to_strict", P, [pre |-> rr[1]]) /\ EmitCase("lax.roundtrip_lax", P, [pre |-> rr[1]])
                                     /\ (LaxIsStrict(rr[1]) => EmitCase("lax.to_open_hypergraph", P, [pre |-> rr[1]])))
         /\ EmitCase("lax.h.to_hypergraph", P, [pre |-> rr[1]])
         /\ EmitCase("lax.source", P, [f |-> rr[1]]) /\ EmitCase("lax.target", P, [f |-> rr[1]])
    [] kind = "strict1" -> EmitCase("lax.from_strict", P, [f |-> Pack(rr[1])]) /\ EmitCase("lax.roundtrip_strict", P, [f |-> Pack(rr[1])])
    [] kind = "lax2" ->
         /\ EmitCase("lax.compose", P, [f |-> rr[1], g |-> rr[2]]) /\ EmitCase("lax.lax_compose", P, [f |-> rr[1], g |-> rr[2]])
         /\ EmitCase("lax.tensor_assign", P, [pre |-> rr[1], g |-> rr[2]]) /\ EmitCase("lax.append", P, [pre |-> rr[1], g |-> rr[2]])
         /\ EmitCase("lax.h.coproduct_assign", P, [pre |-> rr[1], g |-> rr[2]])
         /\ EmitCase("lax.compose_shr", P, [f |-> rr[1], g |-> rr[2]])
    [] kind = "sing" -> /\ \A x \in EL : EmitCase("lax.singleton", P, [x |-> x, a |-> rr[1], b |-> rr[2]]) /\ EmitCase("strict.singleton", P, [x |-> x, a |-> rr[1], b |-> rr[2]])
                        \* identity, symmetry and spiders of the lax representation strictify to the strict ones
                        /\ EmitCase("lax.twist", P, [a |-> rr[1], b |-> rr[2]]) /\ EmitCase("strict.twist", P, [a |-> rr[1], b |-> rr[2]])
                        /\ (rr[2] = <<>> => EmitCase("lax.identity", P, [w |-> rr[1]]) /\ EmitCase("strict.identity", P, [w |-> rr[1]]))
                        /\ \A s \in FinFunsTo(2, Len(rr[1])) : EmitCase("lax.spider", P, [s |-> s, t |-> FIdentity(Len(rr[1])), w |-> rr[1]])
Load == /\ stage >= 1 /\ stage <= Depth /\ kind' = kind
        /\ \E d \in Dom : r' = Append(r, d) /\ stage' = stage + 1 /\ (stage = Depth => Emits(r'))
Next == Start \/ Load
Spec == Init /\ [][Next]_vars
Done == stage = Depth + 1
\* strictification commutes with the categorical operations (on the list model)
Commutes ==
  /\ (Done /\ kind = "lax2" /\ LaxConsistent(r[1]) /\ LaxConsistent(r[2]) =>
        /\ Iso(Strictify(LTensor(r[1], r[2])), TensorRef(Strictify(r[1]), Strictify(r[2])))
        /\ (LComposeDefined(r[1], r[2]) =>
              /\ LLaxComposeDefined(r[1], r[2]) /\ LaxConsistent(LLaxCompose(r[1], r[2]))
              /\ Iso(Strictify(LLaxCompose(r[1], r[2])), ComposeRef(Strictify(r[1]), Strictify(r[2]))))
        /\ LAppend(r[1], r[2]).st = [LTensor(r[1], r[2]) EXCEPT !.sources = r[1].sources, !.targets = r[1].targets])
  /\ (Done /\ kind = "lax1" => /\ (LaxIsStrict(r[1]) => PlainToLax(LaxToPlain(r[1])) = r[1] /\ PlainToLax(Abs(Pack(LaxToPlain(r[1])))) = r[1])
                               /\ (LaxConsistent(r[1]) => Iso(Strictify(LDagger(r[1])), DaggerRef(Strictify(r[1])))))
  /\ (Done /\ kind = "strict1" => LaxToPlain(PlainToLax(r[1])) = r[1] /\ Pack(LaxToPlain(PlainToLax(Abs(Pack(r[1]))))) = Pack(r[1]))
=============================================================================
