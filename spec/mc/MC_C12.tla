------------------------------ MODULE MC_C12 ------------------------------
(* C12, C13: functors as tables (programs are data).  TLC enumerates the     *)
(* diagram, the object map (lists of length 0, 1, 2) and, for every operation *)
(* type occurring in the diagram, an image diagram of the right type.         *)
EXTENDS Domains, Emit
CONSTANTS N, E, A, I, NL, EL, ObjL, TL, IN_, IE, IA, IEL, Fam, Q, LObjL, LIN
VARIABLES stage, kind, f, g, F
vars == <<stage, kind, f, g, F>>
D == Diagrams(N, E, A, I, NL, EL)
ObjMaps == [1 .. Cardinality(NL) -> SeqsUpTo(TL, IF kind = "laws" THEN LObjL ELSE ObjL)]   \* label l |-> obj[l+1]
KeysOf(d) == {[l |-> d.e[i].l, a |-> Lab(d, d.e[i].s), b |-> Lab(d, d.e[i].t)] : i \in 1 .. NE(d)}
Keys == IF kind = "laws" THEN KeysOf(f) \cup KeysOf(g) ELSE KeysOf(f)
Done(FF_) == \A k \in Keys : FHasOp(FF_, k.l, k.a, k.b)
NextKey == CHOOSE k \in Keys : ~FHasOp(F, k.l, k.a, k.b)
ImgsFor(FF_, k) == TypedDiagrams(IF kind = "laws" THEN LIN ELSE IN_, IE, IA, TL, IEL, FType(FF_, k.a), FType(FF_, k.b))   \* candidate images
FJson(FF_) == [obj |-> FF_.obj, ops |-> [i \in 1 .. Len(FF_.ops) |-> [l |-> FF_.ops[i].l, a |-> FF_.ops[i].a, b |-> FF_.ops[i].b, img |-> Pack(FF_.ops[i].img)]]]
\* a lax presentation of the same image that carries a pending unification of its own: one boundary
\* node is split in two and the halves are unified (its strictification is the image again)
SplitLax(d) ==
  IF d.t # <<>> THEN
     LET v == d.t[1]  n == NN(d) IN
     [PlainToLax(OH(d.w \o <<d.w[v + 1]>>, d.e, d.s, [d.t EXCEPT ![1] = n])) EXCEPT !.ql = <<v>>, !.qr = <<n>>]
  ELSE IF d.s # <<>> THEN
     LET v == d.s[1]  n == NN(d) IN
     [PlainToLax(OH(d.w \o <<d.w[v + 1]>>, d.e, [d.s EXCEPT ![1] = n], d.t)) EXCEPT !.ql = <<n>>, !.qr = <<v>>]
  ELSE PlainToLax(d)
\* the table as seen by the lax functor trait: images given as lax diagrams with pending pairs
FJsonLax(FF_) == [obj |-> FF_.obj, ops |-> [i \in 1 .. Len(FF_.ops) |-> [l |-> FF_.ops[i].l, a |-> FF_.ops[i].a, b |-> FF_.ops[i].b,
                                                                      img |-> Pack(FF_.ops[i].img), limg |-> SplitLax(FF_.ops[i].img)]]]
Em(flag, op, props, args) == IF flag \in Fam THEN EmitCase(op, props, args) ELSE TRUE
\* lax versions of f: quotient-free, and with pending (label-consistent or not) unifications
LaxOf(d) == PlainToLax(d)
Pending(d) == {[LaxOf(d) EXCEPT !.ql = <<p[1]>>, !.qr = <<p[2]>>] : p \in Range0(NN(d)) \X Range0(NN(d))}
Emits(FF_) ==
  IF kind = "laws" THEN Em("laws", "functor.laws", <<"C12">>, [F |-> FJson(FF_), f |-> Pack(f), g |-> Pack(g)])
  ELSE
  /\ Em("strict", "functor.map_arrow", <<"C12", "C05">>, [F |-> FJson(FF_), f |-> Pack(f)])
  /\ (FF_.ops = <<>> /\ f.s = <<>> /\ f.t = <<>> => Em("strict", "functor.map_object", <<"C12">>, [F |-> FJson(FF_), w |-> f.w]))
  \* the built-in identity functors, once per diagram
  /\ ((\A o \in DOMAIN FF_.obj : FF_.obj[o] = <<>>) /\ (\A i \in 1 .. Len(FF_.ops) : FF_.ops[i].img = EmptyOH) =>
        Em("strict", "functor.identity", <<"C12", "C05">>, [f |-> Pack(f)]) /\ Em("dyn", "laxf.identity", <<"C12">>, [f |-> LaxOf(f)]))
  /\ Em("dyn", "laxf.dyn_map_arrow", <<"C12">>, [F |-> FJson(FF_), f |-> LaxOf(f)])
  /\ Em("native", "laxf.try_define_map_arrow", <<"C13">>, [F |-> FJson(FF_), f |-> LaxOf(f)])
  /\ Em("native", "laxf.map_arrow_witness", <<"C13">>, [F |-> FJson(FF_), f |-> LaxOf(f)])
  \* operation images that are lax diagrams with pending unifications of their own
  /\ Em("split", "laxf.try_define_map_arrow", <<"C13">>, [F |-> FJsonLax(FF_), f |-> LaxOf(f)])
  /\ Em("split", "laxf.map_arrow_witness", <<"C13">>, [F |-> FJsonLax(FF_), f |-> LaxOf(f)])
  /\ Em("split", "laxf.dyn_map_arrow", <<"C12">>, [F |-> FJsonLax(FF_), f |-> LaxOf(f)])
  /\ \A lf \in (IF "refuse" \in Fam THEN Pending(f) ELSE {}) :
        /\ EmitCase("laxf.try_define_map_arrow", <<"C13">>, [F |-> FJson(FF_), f |-> lf])
        /\ EmitCase("laxf.map_arrow_witness", <<"C13">>, [F |-> FJson(FF_), f |-> lf])
        /\ (LaxConsistent(lf) /\ "dyn" \in Fam => EmitCase("laxf.dyn_map_arrow", <<"C12">>, [F |-> FJson(FF_), f |-> lf]))
Init == stage = 0 /\ kind = "none" /\ f = EmptyOH /\ g = EmptyOH /\ F = [obj |-> <<>>, ops |-> <<>>]
Start == stage = 0 /\ stage' = 1 /\ kind' \in ({"apply"} \cup (IF "laws" \in Fam THEN {"laws"} ELSE {})) /\ UNCHANGED <<f, g, F>>
LoadF == stage = 1 /\ stage' = 2 /\ UNCHANGED <<kind, g, F>> /\ \E d \in D : f' = d
LoadG == stage = 2 /\ stage' = 3 /\ UNCHANGED <<kind, f, F>> /\ (IF kind = "laws" THEN \E d \in D : NN(d) <= Q /\ NN(f) <= Q /\ g' = d ELSE g' = g)
LoadObj == stage = 3 /\ UNCHANGED <<kind, f, g>> /\ \E om \in ObjMaps :
             LET F1 == [obj |-> om, ops |-> <<>>] IN F' = F1 /\ (IF Done(F1) THEN stage' = 5 /\ Emits(F1) ELSE stage' = 4)
LoadImg == stage = 4 /\ UNCHANGED <<kind, f, g>> /\ LET k == NextKey IN \E d \in ImgsFor(F, k) :
             LET F1 == [F EXCEPT !.ops = Append(@, [l |-> k.l, a |-> k.a, b |-> k.b, img |-> d])] IN
             F' = F1 /\ (IF Done(F1) THEN stage' = 5 /\ Emits(F1) ELSE stage' = 4)
Next == Start \/ LoadF \/ LoadG \/ LoadObj \/ LoadImg
Spec == Init /\ [][Next]_vars

\* the library's spider decomposition equals generator-wise substitution; typing; functoriality of Substitute
DecompositionTheorem ==
  stage = 5 /\ kind = "apply" =>
    /\ FApplicable(F, f)
    /\ LET r == Substitute(F, f) IN
       /\ WFPlain(r) /\ SrcType(r) = FType(F, SrcType(f)) /\ TgtType(r) = FType(F, TgtType(f))
       /\ Iso(SpiderDecomposition(F, f), r)
\* the lax presentation with a split node means the same image
SplitTheorem == stage = 5 /\ "split" \in Fam => \A i \in 1 .. Len(F.ops) :
    LET l == SplitLax(F.ops[i].img) IN WFLax(l) /\ LaxConsistent(l) /\ Iso(Strictify(l), F.ops[i].img)
FunctorialityTheorem ==
  stage = 5 /\ kind = "laws" =>
    /\ Iso(Substitute(F, TensorRef(f, g)), TensorRef(Substitute(F, f), Substitute(F, g)))
    /\ Iso(Substitute(F, DaggerRef(f)), DaggerRef(Substitute(F, f)))
    /\ (Composable(f, g) => Iso(Substitute(F, ComposeRef(f, g)), ComposeRef(Substitute(F, f), Substitute(F, g))))
    /\ Iso(Substitute(F, IdentityRef(SrcType(f))), IdentityRef(FType(F, SrcType(f))))
=============================================================================
