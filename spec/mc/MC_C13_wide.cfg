SPECIFICATION Spec
CONSTANTS N = 3  E = 0  A = 1  I = 1  NL = {0, 1, 2}  EL = {0}  ObjL = 2  TL = {0}  IN_ = 1  IE = 1  IA = 1  IEL = {0}  Fam = {"native"}  Q = 1  LObjL = 1  LIN = 1
INVARIANTS DecompositionTheorem
CHECK_DEADLOCK FALSE
