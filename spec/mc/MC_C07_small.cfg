SPECIFICATION Spec
CONSTANTS L = 3  V = 2  SL = 3
INVARIANTS DefaultMethods SegSumFormula
CHECK_DEADLOCK FALSE
