SPECIFICATION Spec
CONSTANTS N = 2  E = 1  A = 1  I = 1  ObjL = 2  ML = 1  K = 2  MaxI = 2  MaxN = 4  Fam = {"typing", "lax", "laws", "deriv"}  Q = 1  OL = {0}
INVARIANTS TypingTheorem FunctorialityTheorem ChainRule
CHECK_DEADLOCK FALSE
