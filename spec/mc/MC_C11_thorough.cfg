SPECIFICATION Spec
CONSTANTS N = 2  E = 1  A = 2  I = 1  Q = 2  NL = {0, 1}  EL = {0}  Fam = {"edit"}
CONSTRAINT Bound
INVARIANTS WF QuotientTheory
PROPERTIES FailAtomic QuotientClears AppendOnly
CHECK_DEADLOCK FALSE
