------------------------------ MODULE MC_C03 ------------------------------
(* C03: symmetric monoidal category laws up to isomorphism.                 *)
EXTENDS Domains, Emit
CONSTANTS N3, N2, N4, E, A, I, NL, EL, TL, TNL, NL4, MidN, MidI
VARIABLES stage, kind, r
vars == <<stage, kind, r>>
D3 == Diagrams(N3, E, A, I, NL, EL)
D2 == Diagrams(N2, E, A, I, NL, EL)
D4 == Diagrams(N4, E, A, I, NL4, EL)
Types == SeqsUpTo(TNL, TL)
\* associativity with a discrete middle operand on more nodes and longer interfaces (non-injective, repeated
\* and unhit nodes: "fuse", "copy", "discard"-like spiders), outer operands with interfaces of the same length
DMid == Diagrams(MidN, 0, 0, MidI, NL4, EL)
DOut == Diagrams(1, E, A, MidI, NL4, EL)
P == <<"C03", "C05">>
Init == stage = 0 /\ kind = "none" /\ r = <<>>
Start == stage = 0 /\ kind' \in {"assoc", "unit", "interchange", "twistnat", "types", "assocmid"} /\ r' = r /\ stage' = 1
Dom == CASE kind = "assocmid" -> (IF stage = 2 THEN DMid ELSE DOut) [] kind = "assoc" -> D3 [] kind = "unit" -> D2 [] kind = "interchange" -> D4 [] kind = "twistnat" -> D2 [] kind = "types" -> Types [] OTHER -> {}
Depth == CASE kind = "assocmid" -> 3 [] kind = "assoc" -> 3 [] kind = "unit" -> 1 [] kind = "interchange" -> 4 [] kind = "twistnat" -> 2 [] kind = "types" -> 3 [] OTHER -> 99
Emits(rr) ==
  CASE kind = "assocmid" -> EmitCase("law.assoc", P, [f |-> Pack(rr[1]), g |-> Pack(rr[2]), h |-> Pack(rr[3])])
    [] kind = "assoc" -> EmitCase("law.assoc", P, [f |-> Pack(rr[1]), g |-> Pack(rr[2]), h |-> Pack(rr[3])])
    [] kind = "unit" -> EmitCase("law.unit", P, [f |-> Pack(rr[1])])
    [] kind = "interchange" -> EmitCase("law.interchange", P, [f |-> Pack(rr[1]), g |-> Pack(rr[2]), h |-> Pack(rr[3]), k |-> Pack(rr[4])])
    [] kind = "twistnat" -> EmitCase("law.twist_natural", P, [f |-> Pack(rr[1]), g |-> Pack(rr[2])])
    [] kind = "types" -> /\ EmitCase("law.hexagon", P, [a |-> rr[1], b |-> rr[2], c |-> rr[3]])
                         /\ (rr[3] = <<>> => EmitCase("law.twist_inverse", P, [a |-> rr[1], b |-> rr[2]])
                                             /\ EmitCase("strict.twist", P, [a |-> rr[1], b |-> rr[2]])
                                             /\ EmitCase("lax.twist", P, [a |-> rr[1], b |-> rr[2]]))
                         /\ (rr[3] = <<>> /\ rr[2] = <<>> => EmitCase("strict.identity", P, [w |-> rr[1]]) /\ EmitCase("lax.identity", P, [w |-> rr[1]]))
Load == /\ stage >= 1 /\ stage <= Depth /\ kind' = kind
        /\ \E d \in Dom : r' = Append(r, d) /\ stage' = stage + 1 /\ (stage = Depth => Emits(r'))
Next == Start \/ Load
Spec == Init /\ [][Next]_vars
Done == stage = Depth + 1
C(f, g) == ComposeRef(f, g)
T(f, g) == TensorRef(f, g)
Laws ==
  /\ (Done /\ kind \in {"assoc", "assocmid"} /\ Composable(r[1], r[2]) /\ Composable(r[2], r[3]) =>
        /\ Composable(C(r[1], r[2]), r[3]) /\ Composable(r[1], C(r[2], r[3]))
        /\ Iso(C(C(r[1], r[2]), r[3]), C(r[1], C(r[2], r[3]))))
  /\ (Done /\ kind = "unit" => Iso(C(IdentityRef(SrcType(r[1])), r[1]), r[1]) /\ Iso(C(r[1], IdentityRef(TgtType(r[1]))), r[1]))
  /\ (Done /\ kind = "interchange" /\ Composable(r[1], r[2]) /\ Composable(r[3], r[4]) =>
        Iso(T(C(r[1], r[2]), C(r[3], r[4])), C(T(r[1], r[3]), T(r[2], r[4]))))
  /\ (Done /\ kind = "twistnat" =>
        Iso(C(T(r[1], r[2]), TwistRef(TgtType(r[1]), TgtType(r[2]))), C(TwistRef(SrcType(r[1]), SrcType(r[2])), T(r[2], r[1]))))
  /\ (Done /\ kind = "types" =>
        /\ Iso(C(TwistRef(r[1], r[2]), TwistRef(r[2], r[1])), IdentityRef(r[1] \o r[2]))
        /\ Iso(TwistRef(r[1], r[2] \o r[3]), C(T(TwistRef(r[1], r[2]), IdentityRef(r[3])), T(IdentityRef(r[2]), TwistRef(r[1], r[3]))))
        /\ Iso(TwistRef(r[1] \o r[2], r[3]), C(T(IdentityRef(r[1]), TwistRef(r[2], r[3])), T(TwistRef(r[1], r[3]), IdentityRef(r[2])))))
=============================================================================
