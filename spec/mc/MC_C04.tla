------------------------------ MODULE MC_C04 ------------------------------
(* C04: dagger and spiders (hypergraph-category structure), strict and lax. *)
EXTENDS Domains, Emit
CONSTANTS N, E, A, I, NL, EL, SN, SL, RT
VARIABLES stage, kind, r
vars == <<stage, kind, r>>
D == Diagrams(N, E, A, I, NL, EL)
\* labelled cospans (s, t, w): legs of length <= SL over <= SN nodes
CospansN(n) == {[s |-> s, t |-> t, w |-> w] : w \in SeqsOfLen(NL, n), s \in SeqsUpTo(Range0(n), SL), t \in SeqsUpTo(Range0(n), SL)}
Cospans == UNION {CospansN(n) : n \in 0 .. SN}
\* raw spider arguments: leg codomains may differ from |w|
RawSpiders == {[s |-> s, t |-> t, w |-> w] : s \in FinFuns(1, RT), t \in FinFuns(1, RT), w \in SeqsUpTo(NL, RT)}
P == <<"C04", "C05">>
Init == stage = 0 /\ kind = "none" /\ r = <<>>
Start == stage = 0 /\ kind' \in {"dagger", "fusion", "raw"} /\ r' = r /\ stage' = 1
Dom == CASE kind = "dagger" -> D [] kind = "fusion" -> Cospans [] kind = "raw" -> RawSpiders [] OTHER -> {}
Depth == CASE kind = "dagger" -> 2 [] kind = "fusion" -> 2 [] kind = "raw" -> 1 [] OTHER -> 99
FFn(c, leg) == FF(leg, Len(c.w))
Emits(rr) ==
  CASE kind = "dagger" -> /\ EmitCase("law.dagger_compose", P, [f |-> Pack(rr[1]), g |-> Pack(rr[2])])
                          /\ EmitCase("law.dagger_tensor", P, [f |-> Pack(rr[1]), g |-> Pack(rr[2])])
                          /\ (rr[1] = rr[2] => EmitCase("strict.dagger", P, [f |-> Pack(rr[1])]) /\ EmitCase("lax.dagger", P, [f |-> PlainToLax(rr[1])]))
    [] kind = "fusion" -> EmitCase("law.spider_fusion", P, [s1 |-> FFn(rr[1], rr[1].s), t1 |-> FFn(rr[1], rr[1].t), w1 |-> rr[1].w,
                                                            s2 |-> FFn(rr[2], rr[2].s), t2 |-> FFn(rr[2], rr[2].t), w2 |-> rr[2].w])
    [] kind = "raw" -> /\ EmitCase("strict.spider", P, rr[1]) /\ EmitCase("lax.spider", P, rr[1])
                       /\ (rr[1].t = FIdentity(rr[1].s.target) =>
                             EmitCase("strict.half_spider", P, [s |-> rr[1].s, w |-> rr[1].w]) /\ EmitCase("lax.half_spider", P, [s |-> rr[1].s, w |-> rr[1].w]))
Load == /\ stage >= 1 /\ stage <= Depth /\ kind' = kind
        /\ \E d \in Dom : r' = Append(r, d) /\ stage' = stage + 1 /\ (stage = Depth => Emits(r'))
Next == Start \/ Load
Spec == Init /\ [][Next]_vars
Done == stage = Depth + 1
Sp(c) == SpiderRef(c.s, c.t, c.w)
\* pushout of two cospans along the shared boundary, computed independently of ComposeRef
FusedSpider(c1, c2) ==
  LET n1 == Len(c1.w)  n == n1 + Len(c2.w)
      pairs == {<<c1.t[i], c2.s[i] + n1>> : i \in 1 .. Len(c1.t)}
      q == QuotMap(n, pairs)
  IN SpiderRef(Thru(c1.s, q), Thru(Shift(c2.t, n1), q), [c \in 1 .. NumClasses(q) |-> (c1.w \o c2.w)[CHOOSE i \in 1 .. n : q[i] = c - 1]])
Laws ==
  /\ (Done /\ kind = "dagger" =>
        /\ DaggerRef(DaggerRef(r[1])) = r[1]
        /\ DaggerRef(TensorRef(r[1], r[2])) = TensorRef(DaggerRef(r[1]), DaggerRef(r[2]))
        /\ (Composable(r[1], r[2]) => Iso(DaggerRef(ComposeRef(r[1], r[2])), ComposeRef(DaggerRef(r[2]), DaggerRef(r[1])))))
  /\ (Done /\ kind = "fusion" /\ Composable(Sp(r[1]), Sp(r[2])) =>
        LET c == ComposeRef(Sp(r[1]), Sp(r[2])) IN NE(c) = 0 /\ Iso(c, FusedSpider(r[1], r[2])))
  \* identities and symmetries are spiders
  /\ (Done /\ kind = "fusion" => LET w == r[1].w  v == r[2].w IN
        /\ IdentityRef(w) = SpiderRef(Arange(0, Len(w)), Arange(0, Len(w)), w)
        /\ TwistRef(w, v) = SpiderRef(FTwist(Len(w), Len(v)).table, Arange(0, Len(w) + Len(v)), v \o w))
=============================================================================
