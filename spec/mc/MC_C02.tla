------------------------------ MODULE MC_C02 ------------------------------
(* C02: tensor is strict juxtaposition, associative and unital on the nose, *)
(* strict and lax (with pending unifications).                              *)
EXTENDS Domains, Emit
CONSTANTS N, E, A, I, NL, EL, N3, Q, LxN, LxN3
VARIABLES stage, kind, r
vars == <<stage, kind, r>>
D2 == Diagrams(N, E, A, I, NL, EL)            \* pairs
D3 == Diagrams(N3, E, A, I, NL, EL)           \* triples
L2 == LaxDiagrams(LxN, E, A, I, Q, NL, EL)
L3 == LaxDiagrams(LxN3, E, A, I, Q, NL, EL)
P == <<"C02", "C05">>

Init == stage = 0 /\ kind = "none" /\ r = <<>>
Start == stage = 0 /\ kind' \in {"spair", "striple", "lpair", "ltriple"} /\ r' = r /\ stage' = 1
Dom == CASE kind = "spair" -> D2 [] kind = "striple" -> D3 [] kind = "lpair" -> L2 [] kind = "ltriple" -> L3
Depth == IF kind \in {"spair", "lpair"} THEN 2 ELSE 3
Emits(rr) ==
  CASE kind = "spair" -> /\ EmitCase("strict.tensor", P, [f |-> Pack(rr[1]), g |-> Pack(rr[2])])
                         /\ EmitCase("hyper.coproduct", P, [g |-> PackH(rr[1]), h |-> PackH(rr[2])])
                         /\ EmitCase("hyper.coproduct_add", P, [g |-> PackH(rr[1]), h |-> PackH(rr[2])]) /\ (rr[1] = rr[2] => EmitCase("hyper.is_discrete", P, [h |-> PackH(rr[1])]))
                         /\ (rr[1] = rr[2] => EmitCase("law.tensor_unit", P, [f |-> Pack(rr[1])])) /\ EmitCase("strict.tensor_bitor", P, [f |-> Pack(rr[1]), g |-> Pack(rr[2])])
    [] kind = "striple" -> EmitCase("law.tensor_assoc", P, [f |-> Pack(rr[1]), g |-> Pack(rr[2]), h |-> Pack(rr[3])])
    [] kind = "lpair" -> EmitCase("lax.tensor", P, [f |-> rr[1], g |-> rr[2]])
                         /\ EmitCase("lax.tensor_assign", P, [pre |-> rr[1], g |-> rr[2]])     \* the in-place entry point
                         /\ EmitCase("lax.tensor_bitor", P, [f |-> rr[1], g |-> rr[2]])
    [] kind = "ltriple" -> EmitCase("lax.tensor3", P, [f |-> rr[1], g |-> rr[2], h |-> rr[3]])
Load == /\ stage >= 1 /\ stage <= Depth /\ kind' = kind
        /\ \E d \in Dom : r' = Append(r, d) /\ stage' = stage + 1 /\ (stage = Depth => Emits(r'))
Next == Start \/ Load
Spec == Init /\ [][Next]_vars

Done == stage = Depth + 1
\* design theorems on the reference operators
TensorLaws ==
  /\ (Done /\ kind = "striple" => /\ TensorRef(TensorRef(r[1], r[2]), r[3]) = TensorRef(r[1], TensorRef(r[2], r[3]))
                                  /\ TensorRef(EmptyOH, r[1]) = r[1] /\ TensorRef(r[1], EmptyOH) = r[1])
  /\ (Done /\ kind = "ltriple" => /\ LTensor(LTensor(r[1], r[2]), r[3]) = LTensor(r[1], LTensor(r[2], r[3]))
                                  /\ LTensor(LaxEmpty, r[1]) = r[1] /\ LTensor(r[1], LaxEmpty) = r[1])
  /\ (Done /\ kind = "spair" => LET t == TensorRef(r[1], r[2]) IN
        /\ WFPlain(t) /\ SrcType(t) = SrcType(r[1]) \o SrcType(r[2]) /\ TgtType(t) = TgtType(r[1]) \o TgtType(r[2])
        /\ WFStrict(Pack(t)) /\ Abs(Pack(t)) = t)
  /\ (Done /\ kind = "lpair" => WFLax(LTensor(r[1], r[2]))
        \* tensor commutes with strictification when both sides are label-consistent
        /\ (LaxConsistent(r[1]) /\ LaxConsistent(r[2]) => Iso(Strictify(LTensor(r[1], r[2])), TensorRef(Strictify(r[1]), Strictify(r[2])))))
=============================================================================
