SPECIFICATION Spec
CONSTANTS N = 2  E = 3  A = 1  I = 0  NL = {0}  EL = {0, 1}  ObjL = 0  TL = {0}  IN_ = 0  IE = 0  IA = 0  IEL = {0}  Fam = {"strict", "dyn"}  Q = 1  LObjL = 1  LIN = 1
INVARIANTS DecompositionTheorem
CHECK_DEADLOCK FALSE
