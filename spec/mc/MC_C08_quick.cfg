SPECIFICATION Spec
CONSTANTS NSeg = 2  SegL = 2  V = 2  ScriptL = 4
INVARIANTS PackLaws IterLaws
CHECK_DEADLOCK FALSE
