SPECIFICATION Spec
CONSTANTS ShapeName = "wide"  NL = {0}  EL = {0}  Fam = {"layer", "pred"}  I = 0
INVARIANTS KahnTheorem AdjacencyTheorem PredicateTheorem
CHECK_DEADLOCK FALSE
