------------------------------ MODULE MC_Lax ------------------------------
(***************************************************************************)
(* C09, C11: the lax builder as a state machine.  One action per builder    *)
(* call; TLC explores every reachable state within the bounds and every     *)
(* (state, call, arguments) transition is emitted as a case with its        *)
(* pre-state.  Because the lax diagram has no hidden state, per-transition  *)
(* conformance gives per-history conformance by induction.                  *)
(***************************************************************************)
EXTENDS Domains, Emit
CONSTANTS N, E, A, I, Q, NL, EL, Fam
VARIABLES st
vars == <<st>>
Nodes == Range0(LN(st))
P9 == <<"C09">>
P11 == <<"C11">>
Edit == "edit" \in Fam
Quo == "quotient" \in Fam
Em(flag, op, props, args) == IF flag THEN EmitCase(op, props, args) ELSE TRUE

Init == st = LaxEmpty
NewNode == \E lab \in NL : st' = LNewNode(st, lab).st /\ Em(Edit, "lax.new_node", P11, [pre |-> st, label |-> lab])
NewEdge == \E x \in EL, s \in SeqsUpTo(Nodes, A), t \in SeqsUpTo(Nodes, A) :
             st' = LNewEdge(st, x, s, t).st /\ Em(Edit, "lax.new_edge", P11, [pre |-> st, x |-> x, s |-> s, t |-> t])
NewOperation == \E x \in EL, a \in SeqsUpTo(NL, 1), b \in SeqsUpTo(NL, 1) :
             st' = LNewOperation(st, x, a, b).st /\ Em(Edit, "lax.new_operation", P11, [pre |-> st, x |-> x, a |-> a, b |-> b])
AddSource == \E e \in Range0(LE(st)), lab \in NL :
             st' = LAddEdgeSource(st, e, lab).st /\ Em(Edit, "lax.add_edge_source", P11, [pre |-> st, e |-> e, label |-> lab])
AddTarget == \E e \in Range0(LE(st)), lab \in NL :
             st' = LAddEdgeTarget(st, e, lab).st /\ Em(Edit, "lax.add_edge_target", P11, [pre |-> st, e |-> e, label |-> lab])
Unify == \E v \in Nodes, w \in Nodes : st' = LUnify(st, v, w) /\ Em(Edit, "lax.unify", <<"C09", "C11">>, [pre |-> st, v |-> v, w |-> w])
\* identifiers: valid, duplicated, out of range; lists of up to 2 (3 in the "ids3" family: non-adjacent duplicates)
IdL == IF "ids3" \in Fam THEN 3 ELSE 2
DeleteNodes == \E ids \in SeqsUpTo(0 .. LN(st), IdL) :
             /\ Em(Edit, "lax.delete_nodes", P11, [pre |-> st, ids |-> ids])
             /\ Em(Edit, "lax.h.delete_nodes_witness", P11, [pre |-> st, ids |-> ids])
             /\ Em(Edit, "lax.h.delete_nodes", P11, [pre |-> st, ids |-> ids])
             /\ (IF DelAccepts(ids, LN(st)) THEN st' = LDeleteNodesOpen(st, ids).st ELSE st' = st)
DeleteEdges == \E ids \in SeqsUpTo(0 .. LE(st), IdL) :
             /\ Em(Edit, "lax.delete_edges", P11, [pre |-> st, ids |-> ids])
             /\ Em(Edit, "lax.h.delete_edge", P11, [pre |-> st, ids |-> ids])        \* deprecated alias
             /\ (IF DelAccepts(ids, LE(st)) THEN st' = LDeleteEdges(st, ids) ELSE st' = st)
Relabel == /\ Em(Edit, "lax.map_nodes", P11, [pre |-> st, tbl |-> <<1, 0>>])
           /\ Em(Edit, "lax.map_edges", P11, [pre |-> st, tbl |-> <<1, 0>>])
           /\ Em(Edit, "lax.with_nodes", P11, [pre |-> st, nodes |-> [i \in 1 .. LN(st) |-> 1]])
           /\ Em(Edit, "lax.with_nodes", P11, [pre |-> st, nodes |-> [i \in 1 .. (LN(st) + 1) |-> 1]])
           /\ Em(Edit, "lax.with_edges", P11, [pre |-> st, edges |-> [i \in 1 .. LE(st) |-> 1]])
           /\ Em(Edit, "lax.serde_roundtrip", P11, [pre |-> st])
           /\ st' = LMapNodes(st, [i \in 1 .. (SetMax(NL \cup {0}) + 1) |-> IF i = 1 /\ 1 \in NL THEN 1 ELSE IF i = 2 THEN 0 ELSE i - 1])
\* interfaces are plain public fields: assigning them is not a library call (not emitted)
SetInterfaces == \E s \in SeqsUpTo(Nodes, I), t \in SeqsUpTo(Nodes, I) : st' = [st EXCEPT !.sources = s, !.targets = t]
QuotientOk == /\ LaxConsistent(st) /\ LET q == CanonQuotMap(st) IN st' = LApplyQuot(st, q.table, q.target)
              /\ Em(Quo, "lax.quotient", P9, [pre |-> st]) /\ Em(Quo, "lax.h.quotient", P9, [pre |-> st])
              /\ Em(Quo, "lax.quotient_witness", P9, [pre |-> st])                      \* deprecated alias
              /\ Em(Quo, "lax.h.coequalizer", P9, [pre |-> st]) /\ Em(Quo, "lax.is_strict", P9, [pre |-> st])
QuotientFail == /\ ~LaxConsistent(st) /\ st' = st
                /\ Em(Quo, "lax.quotient", P9, [pre |-> st]) /\ Em(Quo, "lax.h.quotient", P9, [pre |-> st])
                /\ Em(Quo, "lax.h.coequalizer", P9, [pre |-> st])
Next == NewNode \/ NewEdge \/ NewOperation \/ AddSource \/ AddTarget \/ Unify \/ DeleteNodes \/ DeleteEdges \/ Relabel
        \/ SetInterfaces \/ QuotientOk \/ QuotientFail
Spec == Init /\ [][Next]_vars

Bound == /\ LN(st) <= N /\ LE(st) <= E /\ Len(st.ql) <= Q
         /\ \A i \in 1 .. Len(st.adj) : Len(st.adj[i].s) <= A /\ Len(st.adj[i].t) <= A

(* ---- what TLC checks on the model ---- *)
WF == WFLax(st)
\* the canonical quotient map is an admissible one, and consistency of the generating pairs
\* is the same as label-uniformity of the fibres
QuotientTheory ==
  LET q == CanonQuotMap(st) IN
  /\ IsQuotientMap(st, q)
  /\ LaxConsistent(st) <=> \A a, b \in Nodes : q.table[a + 1] = q.table[b + 1] => st.nodes[a + 1] = st.nodes[b + 1]
  /\ (LaxConsistent(st) => LET p == LApplyQuot(st, q.table, q.target) IN
        /\ WFLax(p) /\ LaxIsStrict(p) /\ p.edges = st.edges
        /\ LApplyQuot(p, CanonQuotMap(p).table, CanonQuotMap(p).target) = p            \* quotienting again changes nothing
        /\ Iso(LaxToPlain(p), Strictify(st)))
\* action properties
FailAtomic == [][QuotientFail => UNCHANGED st]_vars
QuotientClears == [][QuotientOk => st'.ql = <<>> /\ st'.qr = <<>>]_vars
\* no call other than deletion / quotient / relabelling changes or moves an existing item (prefix property)
IsPrefix(a, b) == Len(a) <= Len(b) /\ SubSeq(b, 1, Len(a)) = a
AppendOnly == [][(NewNode \/ NewEdge \/ NewOperation \/ AddSource \/ AddTarget \/ Unify) =>
                    /\ IsPrefix(st.nodes, st'.nodes) /\ IsPrefix(st.edges, st'.edges)
                    /\ IsPrefix(st.ql, st'.ql) /\ IsPrefix(st.qr, st'.qr)
                    /\ st'.sources = st.sources /\ st'.targets = st.targets]_vars
=============================================================================
