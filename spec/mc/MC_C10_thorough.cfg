SPECIFICATION Spec
CONSTANTS N = 2  E = 1  A = 2  I = 2  Q = 1  NL = {0, 1}  EL = {0}  PN = 1
INVARIANTS Commutes
CHECK_DEADLOCK FALSE
