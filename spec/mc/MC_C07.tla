------------------------------ MODULE MC_C07 ------------------------------
(* C07: array primitives of the backend(s): all small arrays, index arrays  *)
(* in bounds, the five range forms, all small edge lists.                   *)
EXTENDS Domains, Emit
CONSTANTS L, V, SL
VARIABLES stage, kind, r
vars == <<stage, kind, r>>
Arrs == SeqsUpTo(0 .. V, L)
Small == SeqsUpTo(0 .. V, SL)
Strs == SeqsUpTo({"a", "b", "c"}, SL)
P == <<"C07">>
Kinds == {"unary", "gather", "scatter", "same", "assign", "concat", "range", "cc", "scalar", "str"}
Forms(n) == {[form |-> "full"]} \cup {[form |-> "from", a |-> x] : x \in 0 .. n} \cup {[form |-> "to", b |-> y] : y \in 0 .. n}
            \cup {[form |-> "range", a |-> x, b |-> y] : x \in 0 .. n, y \in 0 .. n} \cup {[form |-> "toinc", b |-> y] : y \in 0 .. (n - 1)}
InB(n) == {rg \in Forms(n) : RangeInBounds(rg, n)}
Second(a) ==
  CASE kind = "unary" -> {0}
    [] kind = "gather" -> SeqsUpTo(Range0(Len(a)), SL)
    [] kind = "scatter" -> IF a = <<>> THEN {[idx |-> <<>>, n |-> 0]}
                           ELSE {[idx |-> ix, n |-> n] : ix \in SeqsOfLen(Range0(V + 1), Len(a)), n \in {V + 1, V + 2}}
    [] kind = "same" -> SeqsOfLen(0 .. V, Len(a))
    [] kind = "assign" -> UNION {{[idx |-> ix, vals |-> vs] : vs \in SeqsOfLen(0 .. 2, Len(ix))} : ix \in SeqsUpTo(Range0(Len(a)), 2)}
    [] kind = "concat" -> Small
    [] kind = "range" -> InB(Len(a))
    [] kind = "cc" -> SeqsOfLen(0 .. V, Len(a))
    [] kind = "scalar" -> 0 .. V
    [] kind = "str" -> Strs
    [] OTHER -> {}
FirstDom == CASE kind \in {"scalar"} -> 0 .. V [] kind = "str" -> Strs [] kind \in {"scatter", "assign", "cc", "concat"} -> Small [] OTHER -> Arrs
GE(a, b) == \A i \in 1 .. Len(a) : a[i] >= b[i]
Emits(a, b) ==
  CASE kind = "unary" ->
         /\ EmitCase("arr.cumulative_sum", P, [a |-> a]) /\ EmitCase("arr.sum", P, [a |-> a]) /\ EmitCase("arr.max", P, [a |-> a])
         /\ EmitCase("arr.argsort", P, [a |-> a]) /\ EmitCase("arr.zero", P, [a |-> a]) /\ EmitCase("arr.sparse_bincount", P, [a |-> a])
         /\ EmitCase("arr.len", P, [a |-> a]) /\ EmitCase("arr.is_empty", P, [a |-> a]) /\ EmitCase("arr.from_slice", P, [a |-> a])
         /\ EmitCase("arr.bincount", P, [a |-> a, size |-> V + 1]) /\ EmitCase("arr.bincount", P, [a |-> a, size |-> V + 3])
         /\ EmitCase("arr.quot_rem", P, [a |-> a, d |-> 1]) /\ EmitCase("arr.quot_rem", P, [a |-> a, d |-> 2]) /\ EmitCase("arr.quot_rem", P, [a |-> a, d |-> 3])
         /\ EmitCase("arr.add_const", P, [a |-> a, c |-> 2])
         /\ (SumSeq(a) <= 8 => EmitCase("arr.segmented_arange", P, [sizes |-> a]))
         /\ \A i \in 1 .. Len(a) : EmitCase("arr.get", P, [a |-> a, i |-> i - 1])
    [] kind = "gather" -> EmitCase("arr.gather", P, [a |-> a, idx |-> b])
    [] kind = "scatter" -> EmitCase("arr.scatter", P, [a |-> a, idx |-> b.idx, n |-> b.n])
    [] kind = "same" ->
         /\ EmitCase("arr.add", P, [a |-> a, b |-> b]) /\ (GE(a, b) => EmitCase("arr.sub", P, [a |-> a, b |-> b]))
         /\ EmitCase("arr.mul_constant_add", P, [a |-> a, c |-> 2, x |-> b]) /\ EmitCase("arr.mul_constant_add", P, [a |-> a, c |-> 0, x |-> b])
         /\ EmitCase("arr.sort_by", P, [vals |-> a, key |-> b])
         /\ (SumSeq(a) <= 8 => EmitCase("arr.repeat", P, [counts |-> a, x |-> b]))
    [] kind = "assign" ->
         /\ EmitCase("arr.scatter_assign", P, [a |-> a, idx |-> b.idx, vals |-> b.vals])
         /\ EmitCase("arr.scatter_assign_constant", P, [a |-> a, idx |-> b.idx, c |-> 7])
         /\ ((\A p \in 1 .. Len(a) : a[p] >= SumSeq([i \in 1 .. Len(b.idx) |-> IF b.idx[i] = p - 1 THEN b.vals[i] ELSE 0]))
               => EmitCase("arr.scatter_sub_assign", P, [a |-> a, idx |-> b.idx, rhs |-> b.vals]))
    [] kind = "concat" ->
         /\ EmitCase("arr.concatenate", P, [a |-> a, b |-> b])
         /\ (SumSeq(a) = Len(b) => EmitCase("arr.segmented_sum", P, [sizes |-> a, x |-> b]))
    [] kind = "range" ->
         /\ EmitCase("arr.get_range", P, [a |-> a, r |-> b]) /\ EmitCase("arr.to_range", P, [n |-> Len(a), r |-> b])
         /\ LET p == RangeOfForm(b, Len(a)) IN EmitCase("arr.set_range", P, [a |-> a, r |-> b, v |-> [i \in 1 .. (p[2] - p[1]) |-> 9 - i]])
    [] kind = "cc" -> EmitCase("arr.connected_components", P, [src |-> a, tgt |-> b, n |-> V + 1])
                      /\ EmitCase("arr.connected_components", P, [src |-> a, tgt |-> b, n |-> V + 2])
    [] kind = "scalar" -> /\ EmitCase("arr.fill", P, [x |-> a, n |-> b]) /\ (a <= b => EmitCase("arr.arange", P, [lo |-> a, hi |-> b]))
                          /\ EmitCase("arr.fill_s", P, [x |-> "z", n |-> b]) /\ (a = 0 /\ b = 0 => EmitCase("arr.empty", P, [u |-> 0]))
    [] kind = "str" ->
         /\ EmitCase("arr.concatenate_s", P, [a |-> a, b |-> b])
         /\ \A ix \in SeqsUpTo(Range0(Len(a)), 2) : EmitCase("arr.gather_s", P, [a |-> a, idx |-> ix])
         /\ (Len(a) = Len(b) /\ a # <<>> => \A ix \in SeqsOfLen(Range0(3), Len(a)) : EmitCase("arr.scatter_s", P, [a |-> a, idx |-> ix, n |-> 3]))
         /\ \A rg \in InB(Len(a)) : EmitCase("arr.get_range_s", P, [a |-> a, r |-> rg])
Init == stage = 0 /\ kind = "none" /\ r = <<>>
Start == stage = 0 /\ kind' \in Kinds /\ r' = r /\ stage' = 1
Load1 == stage = 1 /\ kind' = kind /\ \E a \in FirstDom : r' = <<a>> /\ stage' = 2
Load2 == stage = 2 /\ kind' = kind /\ \E b \in Second(r[1]) : r' = <<r[1], b>> /\ stage' = 3 /\ Emits(r[1], b)
Next == Start \/ Load1 \/ Load2
Spec == Init /\ [][Next]_vars
\* default-method formulas of the trait, transcribed, agree with the direct definitions
DefaultMethods ==
  stage = 2 /\ kind = "unary" =>
    LET a == r[1] IN
    /\ (SumSeq(a) <= 8 => LET p == CumSum(a) IN
          SegArange(a) = SubArr(Arange(0, p[Len(p)]), Repeat(a, SubSeq(p, 1, Len(a)))))        \* segmented_arange = arange - repeat(ptr)
    /\ SumSeq(a) = (IF a = <<>> THEN 0 ELSE CumSum(a)[Len(a) + 1])                             \* sum via cumulative sum
SegSumFormula ==
  stage = 3 /\ kind = "concat" /\ SumSeq(r[1]) = Len(r[2]) =>
    LET ptr == CumSum(r[1])  s == CumSum(r[2])  n == Len(ptr) IN
    SegSum(r[1], r[2]) = SubArr(Gather(s, SubSeq(ptr, 2, n)), Gather(s, SubSeq(ptr, 1, n - 1)))
=============================================================================
