SPECIFICATION Spec
CONSTANTS N = 2  E = 1  A = 1  I = 2  NL = {0, 1}  EL = {0}  NSeg = 3  SegL = 2  V = 2
INVARIANTS ChoiceIndependence
CHECK_DEADLOCK FALSE
