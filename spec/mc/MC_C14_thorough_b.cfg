SPECIFICATION Spec
CONSTANTS N = 1  E = 1  A = 1  I = 1  ObjL = 2  ML = 1  K = 1  MaxI = 0  MaxN = 1  Fam = {"typing", "lax"}  Q = 1  OL = {0, 1}
INVARIANTS TypingTheorem
CHECK_DEADLOCK FALSE
