SPECIFICATION Spec
CONSTANTS N = 2  E = 1  A = 1  I = 1  ObjL = 2  ML = 2  K = 3  MaxI = 3  MaxN = 6  Fam = {"typing", "lax", "laws", "deriv"}  Q = 1  OL = {0}
INVARIANTS TypingTheorem FunctorialityTheorem ChainRule
CHECK_DEADLOCK FALSE
