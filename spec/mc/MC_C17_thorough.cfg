SPECIFICATION Spec
CONSTANTS ShapeName = "t17"  NL = {0}  EL = {0}  Fam = {"pred", "predhooks"}  I = 2
INVARIANTS PredicateTheorem
CHECK_DEADLOCK FALSE
