SPECIFICATION Spec
CONSTANTS N = 2  E = 1  A = 1  I = 2  NL = {0, 1}  EL = {0}
INVARIANTS GluingTheorem PackAbs
CHECK_DEADLOCK FALSE
