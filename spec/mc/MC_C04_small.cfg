SPECIFICATION Spec
CONSTANTS N = 1  E = 1  A = 1  I = 1  NL = {0, 1}  EL = {0}  SN = 2  SL = 2  RT = 2
INVARIANTS Laws
CHECK_DEADLOCK FALSE
