------------------------------ MODULE MC_C08 ------------------------------
(* C08: segmented arrays as lists of lists; checked constructors; iterator  *)
(* machine (all interleavings of next / len / size_hint); operation batches. *)
EXTENDS Domains, Emit
CONSTANTS NSeg, SegL, V, ScriptL
VARIABLES stage, kind, r
vars == <<stage, kind, r>>
Lists(v) == SeqsUpTo(SeqsUpTo(Range0(v), SegL), NSeg)          \* lists of lists over 0..v-1
ICs(v) == {PackFF(segs, v) : segs \in Lists(v)}
AllICs == UNION {ICs(v) : v \in 0 .. V}
SFs == {PackSF(segs) : segs \in Lists(2)}
Scripts == SeqsUpTo({"next", "len", "size_hint"}, ScriptL)
P == <<"C08">>
Kinds == {"unary", "pair", "reindex", "mapvals", "raw", "iter", "ops"}
FirstDom == CASE kind \in {"unary", "pair", "reindex", "mapvals"} -> AllICs
              [] kind = "raw" -> SeqsUpTo(0 .. 2, 2) [] kind = "iter" -> ICs(2) [] kind = "ops" -> SFs [] OTHER -> {}
Second(a) ==
  CASE kind = "unary" -> {0}
    [] kind = "pair" -> AllICs
    [] kind = "reindex" -> FinFunsTo(3, NumSegs(a)) \cup FinFunsTo(1, NumSegs(a) + 1)
    [] kind = "mapvals" -> FinFunsFromTo(a.values.target, 2) \cup FinFunsFromTo(a.values.target + 1, 1)
    [] kind = "raw" -> {[tgt |-> t, vals |-> v] : t \in 0 .. 4, v \in SeqsUpTo({0}, 3)}
    [] kind = "iter" -> Scripts
    [] kind = "ops" -> SFs
    [] OTHER -> {}
AsSF(ic) == IC(ic.sources, ic.values.table)
Emits(a, b) ==
  CASE kind = "unary" ->
         /\ EmitCase("ic.singleton_ff", P, [values |-> a.values]) /\ EmitCase("ic.elements_ff", P, [values |-> a.values])
         /\ EmitCase("ic.singleton_sf", P, [values |-> a.values.table]) /\ EmitCase("ic.elements_sf", P, [values |-> a.values.table])
         /\ EmitCase("ic.len_ff", P, [ic |-> a]) /\ EmitCase("ic.initial", P, [target |-> a.values.target])
         /\ EmitCase("ic.iter_slices", P, [ic |-> AsSF(a)])
    [] kind = "pair" ->
         /\ EmitCase("ic.coproduct_ff", P, [a |-> a, b |-> b]) /\ EmitCase("ic.coproduct_sf", P, [a |-> AsSF(a), b |-> AsSF(b)])
         /\ EmitCase("ic.tensor", P, [a |-> a, b |-> b])
         /\ (a.values.target = NumSegs(b) => EmitCase("ic.flatmap", P, [a |-> a, b |-> b]))
         /\ (ValLenFF(a) = NumSegs(b) => EmitCase("ic.flatmap_sources_ff", P, [a |-> a, b |-> b]) /\ EmitCase("ic.flatmap_sources_sf", P, [a |-> AsSF(a), b |-> AsSF(b)]))
    [] kind = "reindex" ->
         /\ EmitCase("ic.map_indexes_ff", P, [ic |-> a, x |-> b]) /\ EmitCase("ic.map_indexes_sf", P, [ic |-> AsSF(a), x |-> b])
         /\ EmitCase("ic.indexed_values_ff", P, [ic |-> a, x |-> b]) /\ EmitCase("ic.indexed_values_sf", P, [ic |-> AsSF(a), x |-> b])
    [] kind = "mapvals" ->
         /\ EmitCase("ic.map_values", P, [ic |-> a, x |-> b]) /\ EmitCase("ic.map_semifinite", P, [ic |-> a, labels |-> Shift(b.table, 5)])
    [] kind = "raw" ->   \* raw (sizes, target, values) for the checked constructors
         /\ EmitCase("ic.new_ff", <<"C08", "C05">>, [sources |-> FF(a, b.tgt), values |-> FF(b.vals, 1)])
         /\ EmitCase("ic.new_sf", <<"C08", "C05">>, [sources |-> FF(a, b.tgt), values |-> b.vals])
         /\ (b.tgt = 0 => EmitCase("ic.from_semifinite_ff", <<"C08", "C05">>, [sizes |-> a, values |-> FF(b.vals, 1)])
                          /\ EmitCase("ic.from_semifinite_sf", <<"C08", "C05">>, [sizes |-> a, values |-> b.vals]))
    [] kind = "iter" -> EmitCase("ic.iter_ff", P, [ic |-> a, script |-> b]) /\ EmitCase("ic.iter_sf", P, [ic |-> AsSF(a), script |-> b])
    [] kind = "ops" ->
         /\ \A x \in SeqsUpTo({0, 1}, NSeg) : EmitCase("ops.new", <<"C08", "C05">>, [x |-> x, a |-> a, b |-> b])
         /\ (NumSegs(a) = NumSegs(b) => EmitCase("ops.iter", P, [ops |-> [x |-> [i \in 1 .. NumSegs(a) |-> i % 2], a |-> a, b |-> b]])
                                        /\ EmitCase("ops.len", P, [ops |-> [x |-> [i \in 1 .. NumSegs(a) |-> i % 2], a |-> a, b |-> b]]))
         /\ (NumSegs(a) = 1 /\ NumSegs(b) = 1 => EmitCase("ops.singleton", P, [x |-> 1, a |-> a.values, b |-> b.values]))
Init == stage = 0 /\ kind = "none" /\ r = <<>>
Start == stage = 0 /\ kind' \in Kinds /\ r' = r /\ stage' = 1
Load1 == stage = 1 /\ kind' = kind /\ \E a \in FirstDom : r' = <<a>> /\ stage' = 2
Load2 == stage = 2 /\ kind' = kind /\ \E b \in Second(r[1]) : r' = <<r[1], b>> /\ stage' = 3 /\ Emits(r[1], b)
Next == Start \/ Load1 \/ Load2
Spec == Init /\ [][Next]_vars

\* the representation invariant and the list-of-lists reading are consistent
PackLaws ==
  /\ (stage = 2 /\ kind \in {"unary", "pair", "reindex", "mapvals"} => WFSegFF(r[1]) /\ PackFF(SegsFF(r[1]), r[1].values.target) = r[1])
  \* flatmap by segmented sum of the composed sizes (the library's formula) gives the list-of-lists sizes
  /\ (stage = 3 /\ kind = "pair" /\ r[1].values.target = NumSegs(r[2]) =>
        LET A1 == SegsFF(r[1])  B1 == SegsFF(r[2]) IN
        [i \in 1 .. Len(A1) |-> Len(LFlatmap(A1, B1)[i])] = SegSum(Sizes(r[1]), Thru(r[1].values.table, Sizes(r[2]))))
  \* re-indexing via block-wise injections
  /\ (stage = 3 /\ kind = "reindex" /\ r[2].target = NumSegs(r[1]) =>
        FlatSeq(LMapIndexes(SegsFF(r[1]), r[2].table)) = Thru(FInjections(r[1].sources, r[2]).table, r[1].values.table))
\* iterator machine: after k next() calls exactly Len - k slices remain, None forever at the end
IterLaws ==
  stage = 2 /\ kind = "iter" =>
    LET segs == SegsFF(r[1]) IN
    \A k \in 0 .. (Len(segs) + 2) :
      LET it == [segs |-> segs, idx |-> IF k <= Len(segs) THEN k ELSE Len(segs)] IN
      /\ IterRemaining(it) >= 0
      /\ (IterNextItem(it).tag = "none" <=> IterRemaining(it) = 0)
      /\ IterRemaining(IterAdvance(it)) = (IF IterRemaining(it) = 0 THEN 0 ELSE IterRemaining(it) - 1)
=============================================================================
