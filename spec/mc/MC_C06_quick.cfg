SPECIFICATION Spec
CONSTANTS S = 3  T = 3  K = 3
INVARIANTS UniversalProperty CategoryLaws TwistLaws
CHECK_DEADLOCK FALSE
