SPECIFICATION Spec
CONSTANTS ShapeName = "tiny"  NL = {0}  EL = {0}  Fam = {"pred"}  I = 2
INVARIANTS PredicateTheorem
CHECK_DEADLOCK FALSE
