------------------------------ MODULE MC_C06 ------------------------------
(* C06: finite functions form a category with coproducts and coequalizers.  *)
EXTENDS Domains, Emit
CONSTANTS S, T, K
VARIABLES stage, kind, r
vars == <<stage, kind, r>>
F == FinFuns(S, T)
P == <<"C06">>
Kinds == {"unary", "pair", "scalar", "raw", "univ"}
Surjections == {q \in F : RangeOf(q.table) = Range0(q.target)}
FirstDom == CASE kind \in {"unary", "pair"} -> F [] kind = "scalar" -> 0 .. K [] kind = "raw" -> SeqsUpTo(0 .. T, S) [] kind = "univ" -> Surjections [] OTHER -> {}
Second(a) ==
  CASE kind = "unary" -> 0 .. K
    [] kind = "pair" -> F
    [] kind = "scalar" -> 0 .. K
    [] kind = "raw" -> 0 .. (T + 1)
    [] kind = "univ" -> SeqsOfLen({0, 1}, Src(a)) \cup SeqsOfLen({0, 1}, Src(a) + 1)
    [] OTHER -> {}
Emits(a, b) ==
  CASE kind = "unary" ->
         /\ EmitCase("ff.inject0", P, [f |-> a, b |-> b]) /\ EmitCase("ff.inject1", P, [f |-> a, a |-> b])
         /\ (b = 0 => /\ EmitCase("ff.cumulative_sum", P, [f |-> a]) /\ EmitCase("ff.is_injective", P, [f |-> a])
                      /\ EmitCase("ff.to_initial", P, [f |-> a]) /\ EmitCase("ff.source", P, [f |-> a]) /\ EmitCase("ff.target", P, [f |-> a]))
    [] kind = "pair" ->
         /\ EmitCase("ff.compose", P, [f |-> a, g |-> b]) /\ EmitCase("ff.coproduct", P, [f |-> a, g |-> b])
         /\ EmitCase("ff.tensor", P, [f |-> a, g |-> b]) /\ EmitCase("ff.coequalizer", P, [f |-> a, g |-> b])
         /\ EmitCase("ff.eq", P, [f |-> a, g |-> b]) /\ EmitCase("ff.injections", P, [s |-> a, a |-> b])
         /\ (RangeOf(a.table) = Range0(a.target) => EmitCase("ff.coequalizer_universal", P, [q |-> a, f |-> b]))
         /\ EmitCase("ff.compose_shr", P, [f |-> a, g |-> b]) /\ EmitCase("ff.coproduct_add", P, [f |-> a, g |-> b]) /\ EmitCase("ff.tensor_bitor", P, [f |-> a, g |-> b])
         /\ EmitCase("sfa.compose", P, [f |-> [kind |-> "finite", f |-> a], g |-> [kind |-> "finite", f |-> b]])
    [] kind = "scalar" ->
         /\ EmitCase("ff.inj0", P, [a |-> a, b |-> b]) /\ EmitCase("ff.inj1", P, [a |-> a, b |-> b])
         /\ EmitCase("ff.twist", P, [a |-> a, b |-> b]) /\ EmitCase("ff.transpose", P, [a |-> a, b |-> b])
         /\ \A x \in 0 .. 2 : EmitCase("ff.constant", P, [a |-> a, x |-> x, b |-> b])
         /\ (b = 0 => EmitCase("ff.identity", P, [n |-> a]) /\ EmitCase("ff.initial", P, [a |-> a]) /\ EmitCase("ff.terminal", P, [a |-> a])
                      /\ EmitCase("ff.initial_object", P, [u |-> 0]) /\ EmitCase("ff.unit", P, [u |-> 0]))
    [] kind = "raw" -> EmitCase("ff.new", <<"C06", "C05">>, [table |-> a, target |-> b])
    [] kind = "univ" -> /\ EmitCase("ff.universal_labels", P, [q |-> a, h |-> b])
                        \* semifinite functions and the category of finite / semifinite arrows
                        /\ EmitCase("sf.coproduct", P, [a |-> a.table, b |-> b]) /\ EmitCase("sf.add", P, [a |-> b, b |-> a.table])
                        /\ EmitCase("sf.len", P, [a |-> b])
                        /\ LET fin == [kind |-> "finite", f |-> a]  sem == [kind |-> "semifinite", labels |-> b]  idt == [kind |-> "identity"] IN
                           /\ \A x \in {fin, sem, idt}, y \in {fin, sem, idt} : EmitCase("sfa.compose", P, [f |-> x, g |-> y])
                           /\ \A x \in {fin, sem, idt} : EmitCase("sfa.source", P, [f |-> x]) /\ EmitCase("sfa.target", P, [f |-> x])
                        /\ (b = <<>> => /\ EmitCase("sfa.identity", P, [obj |-> [kind |-> "finite", n |-> Src(a)]]) /\ EmitCase("sfa.identity", P, [obj |-> [kind |-> "set"]])
                                        /\ EmitCase("sf.singleton", P, [x |-> Src(a)]) /\ EmitCase("sf.zero", P, [u |-> 0]))
                        /\ EmitCase("ff.compose_semifinite", P, [f |-> a, labels |-> b])
Init == stage = 0 /\ kind = "none" /\ r = <<>>
Start == stage = 0 /\ kind' \in Kinds /\ r' = r /\ stage' = 1
Load1 == stage = 1 /\ kind' = kind /\ \E a \in FirstDom : r' = <<a>> /\ stage' = 2
Load2 == stage = 2 /\ kind' = kind /\ \E b \in Second(r[1]) : r' = <<r[1], b>> /\ stage' = 3 /\ Emits(r[1], b)
Next == Start \/ Load1 \/ Load2
Spec == Init /\ [][Next]_vars

\* the universal property itself, exhaustively: for every h with f;h = g;h exactly one u with q;u = h
UniversalProperty ==
  stage = 3 /\ kind = "pair" /\ FParallel(r[1], r[2]) =>
    LET f == r[1]  g == r[2]  q == CanonCoequalizer(f, g) IN
    /\ IsCoequalizer(f, g, q) /\ FCompose(f, q) = FCompose(g, q)
    /\ \A t \in 1 .. 2 : \A h \in FinFunsFromTo(f.target, t) :
         FCompose(f, h) = FCompose(g, h) =>
           Cardinality({u \in FinFunsFromTo(q.target, t) : FCompose(q, u) = h}) = 1
CategoryLaws ==
  stage = 3 /\ kind = "pair" =>
    LET f == r[1]  g == r[2] IN
    /\ FCompose(FIdentity(Src(f)), f) = f /\ FCompose(f, FIdentity(f.target)) = f
    /\ FCompose(FInj0(Src(f), Src(g)), FTensor(f, g)) = FCompose(f, FInj0(f.target, g.target))        \* tensor vs injections
    /\ FCompose(FInj1(Src(f), Src(g)), FTensor(f, g)) = FCompose(g, FInj1(f.target, g.target))
    /\ (FCoproductDefined(f, g) => FCompose(FInj0(Src(f), Src(g)), FCoproduct(f, g)) = f /\ FCompose(FInj1(Src(f), Src(g)), FCoproduct(f, g)) = g)
    /\ FInject0(f, g.target) = FCompose(f, FInj0(f.target, g.target)) /\ FInject1(f, g.target) = FCompose(f, FInj1(g.target, f.target))
    /\ (FInjectionsDefined(f, g) => WFFF(FInjections(f, g)) /\ Src(FInjections(f, g)) = SumSeq(Thru(g.table, f.table)))
    /\ FInjections(f, FIdentity(Src(f))) = FIdentity(SumSeq(f.table))
TwistLaws ==
  stage = 3 /\ kind = "scalar" =>
    LET a == r[1]  b == r[2] IN
    /\ FCompose(FTwist(a, b), FTwist(b, a)) = FIdentity(a + b)
    /\ FCompose(FTranspose(a, b), FTranspose(b, a)) = FIdentity(a * b)
    /\ WFFF(FTranspose(a, b)) /\ WFFF(FTwist(a, b))
=============================================================================
