SPECIFICATION Spec
CONSTANTS ShapeName = "q17"  NL = {0}  EL = {0}  Fam = {"pred", "predhooks"}  I = 1
INVARIANTS PredicateTheorem
CHECK_DEADLOCK FALSE
