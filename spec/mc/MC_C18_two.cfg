SPECIFICATION Spec
CONSTANTS GN = 1  GE = 2  HN = 1  HE_ = 2  A = 1  NL = {0}  EL = {0}  CN = 1  CE = 1  CA = 1
INVARIANTS SearchTheorem InclusionTheorem
CHECK_DEADLOCK FALSE
