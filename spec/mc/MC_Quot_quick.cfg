SPECIFICATION Spec
CONSTANTS N = 4  Q = 3  NL = {0, 1}
INVARIANTS QuotientTheory
CHECK_DEADLOCK FALSE
