SPECIFICATION Spec
CONSTANTS N = 3  E = 2  Labels = {1, 3, 4, 5, 6}  IL = 1  CK = 3  CLabels = {1, 3, 4, 6}  CMaxN = 5
INVARIANTS LayeredTheorem NumberingTheorem
CHECK_DEADLOCK FALSE
