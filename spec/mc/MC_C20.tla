------------------------------ MODULE MC_C20 ------------------------------
(* C20, model level: every resolution of the backend's open choices leads to *)
(* a result that satisfies the operation's relation.                          *)
EXTENDS Backend
CONSTANTS N, E, A, I, NL, EL, NSeg, SegL, V
VARIABLES stage, kind, x, y, res
vars == <<stage, kind, x, y, res>>
D == Diagrams(N, E, A, I, NL, EL)
Lists == SeqsUpTo(SeqsUpTo(Range0(V), SegL), NSeg)
Init == stage = 0 /\ kind = "none" /\ x = 0 /\ y = 0 /\ res = 0
Start == stage = 0 /\ stage' = 1 /\ kind' \in {"converse", "compose"} /\ UNCHANGED <<x, y, res>>
LoadX == stage = 1 /\ stage' = 2 /\ UNCHANGED <<kind, y, res>> /\ x' \in (IF kind = "converse" THEN Lists ELSE D)
LoadY == stage = 2 /\ stage' = 3 /\ UNCHANGED <<kind, x, res>> /\
         (IF kind = "compose" THEN \E g \in D : Composable(x, g) /\ y' = g ELSE y' = 0)
\* the backend answers: every admissible answer is a successor
Choose == stage = 3 /\ stage' = 4 /\ UNCHANGED <<kind, x, y>> /\
   IF kind = "converse"
   THEN \E p \in Argsorts(FlatSeq(x)) : res' = ConverseWith(x, V, p)
   ELSE LET n == NN(x) + NN(y)  pairs == GluePairs(x, y)  lab == x.w \o y.w IN
        \E q \in Labelings(n, pairs) :
           LET k == NumClasses(q) IN
           IF lab = <<>> THEN res' = ComposeWith(x, y, q, <<>>)
           ELSE \E w \in Scatters(lab, q, k) : res' = ComposeWith(x, y, q, w)
Next == Start \/ LoadX \/ LoadY \/ Choose
Spec == Init /\ [][Next]_vars
ChoiceIndependence ==
  stage = 4 =>
    IF kind = "converse" THEN SameSegmentsUpToOrder(res, ConverseRef(x, V))
    ELSE WFPlain(res) /\ Iso(res, ComposeRef(x, y))
=============================================================================
