SPECIFICATION Spec
CONSTANTS N = 2  E = 1  A = 1  I = 1  NL = {0, 1}  EL = {0}  N3 = 1  Q = 1  LxN = 1  LxN3 = 1
INVARIANTS TensorLaws
CHECK_DEADLOCK FALSE
