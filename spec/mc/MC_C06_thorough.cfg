SPECIFICATION Spec
CONSTANTS S = 4  T = 4  K = 4
INVARIANTS UniversalProperty CategoryLaws TwistLaws
CHECK_DEADLOCK FALSE
