SPECIFICATION Spec
CONSTANTS S = 4  T = 3  K = 4
INVARIANTS UniversalProperty CategoryLaws TwistLaws
CHECK_DEADLOCK FALSE
