SPECIFICATION Spec
CONSTANTS N = 2  E = 0  A = 0  I = 2  NL = {0, 1}  EL = {0}
INVARIANTS GluingTheorem PackAbs
CHECK_DEADLOCK FALSE
