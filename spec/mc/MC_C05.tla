------------------------------ MODULE MC_C05 ------------------------------
(* C05: checked constructors on raw (possibly ill-formed) data, and the      *)
(* plain constructors.  The well-formedness / typing conjunct of every other   *)
(* operation is part of that operation's own relation (Conform.tla).           *)
EXTENDS Domains, Emit
CONSTANTS NSeg, SegL, V
VARIABLES stage, kind, r
vars == <<stage, kind, r>>
P == <<"C05">>
Lists(v) == SeqsUpTo(SeqsUpTo(Range0(v), SegL), NSeg)
ICs == UNION {{PackFF(segs, v) : segs \in Lists(v)} : v \in 0 .. V}
\* also segmented arrays whose declared codomain is off (raw data)
SFs == {PackSF(segs) : segs \in SeqsUpTo(SeqsUpTo({0, 1}, SegL), NSeg)}
Ws == SeqsUpTo({0, 1}, V)
Xs == SeqsUpTo({0}, NSeg)
Kinds == {"hyper", "open", "ops", "types"}
Init == stage = 0 /\ kind = "none" /\ r = <<>>
Start == stage = 0 /\ kind' \in Kinds /\ r' = r /\ stage' = 1
Dom == CASE kind = "hyper" -> ICs [] kind = "open" -> ICs [] kind = "ops" -> SFs [] kind = "types" -> Ws [] OTHER -> {}
Depth == CASE kind = "hyper" -> 2 [] kind = "open" -> 2 [] kind = "ops" -> 2 [] kind = "types" -> 2 [] OTHER -> 99
Emits(rr) ==
  CASE kind = "hyper" -> \A w \in Ws, x \in Xs : EmitCase("hyper.new", P, [s |-> rr[1], t |-> rr[2], w |-> w, x |-> x])
    [] kind = "open" ->
         \* hypergraph with matching counts but any node-set size; legs with any codomain
         \A w \in Ws, st \in FinFuns(1, V) \X FinFuns(1, V) :
            NumSegs(rr[1]) = NumSegs(rr[2]) =>
              EmitCase("strict.new", P, [s |-> st[1], t |-> st[2], h |-> HG(rr[1], rr[2], w, [i \in 1 .. NumSegs(rr[1]) |-> 0])])
    [] kind = "ops" -> NumSegs(rr[1]) = NumSegs(rr[2]) =>
            LET ops == [x |-> [i \in 1 .. NumSegs(rr[1]) |-> i % 2], a |-> rr[1], b |-> rr[2]] IN
            /\ EmitCase("strict.tensor_operations", P, [ops |-> ops]) /\ EmitCase("hyper.tensor_operations", P, [ops |-> ops])
    [] kind = "types" -> /\ EmitCase("strict.identity", P, [w |-> rr[1]]) /\ EmitCase("strict.twist", P, [a |-> rr[1], b |-> rr[2]])
                         /\ EmitCase("strict.singleton", P, [x |-> 3, a |-> rr[1], b |-> rr[2]])
                         /\ EmitCase("hyper.discrete", P, [w |-> rr[1]]) /\ EmitCase("lax.identity", P, [w |-> rr[1]]) /\ EmitCase("lax.h.discrete", P, [w |-> rr[1]])
                         /\ EmitCase("lax.twist", P, [a |-> rr[1], b |-> rr[2]]) /\ EmitCase("lax.singleton", P, [x |-> 3, a |-> rr[1], b |-> rr[2]])
                         /\ (rr[2] = <<>> => EmitCase("hyper.empty", P, [u |-> 0]) /\ EmitCase("lax.empty", P, [u |-> 0]) /\ EmitCase("strict.unit", P, [u |-> 0]) /\ EmitCase("lax.unit", P, [u |-> 0]))
Load == /\ stage >= 1 /\ stage <= Depth /\ kind' = kind
        /\ \E d \in Dom : r' = Append(r, d) /\ stage' = stage + 1 /\ (stage = Depth => Emits(r'))
Next == Start \/ Load
Spec == Init /\ [][Next]_vars
\* the shallow conditions of the checked constructors plus deep table checks give deep well-formedness
ValidateTheorem ==
  stage = 3 /\ kind = "hyper" =>
    \A w \in Ws, x \in Xs : LET h == HG(r[1], r[2], w, x) IN
       (HyperNewAccepts(h) /\ WFSegFF(h.s) /\ WFSegFF(h.t)) <=> WFHyper(h)
=============================================================================
