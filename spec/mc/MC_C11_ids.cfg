SPECIFICATION Spec
CONSTANTS N = 2  E = 3  A = 0  I = 1  Q = 1  NL = {0}  EL = {0}  Fam = {"edit", "ids3"}
CONSTRAINT Bound
INVARIANTS WF QuotientTheory
PROPERTIES FailAtomic QuotientClears AppendOnly
CHECK_DEADLOCK FALSE
