SPECIFICATION Spec
CONSTANTS L = 3  MaxV = 3  NL = {0}  N = 0  E = 0  A = 0  I = 0  Fam = {"script"}  BinK = {"sub", "div", "shl", "shr", "or"}
INVARIANTS BuildTheorem ForgetTheorem
CHECK_DEADLOCK FALSE
