SPECIFICATION Spec
CONSTANTS N = 2  E = 2  A = 1  I = 1  Q = 1  NL = {0}  EL = {0, 1}  Fam = {"edit"}
CONSTRAINT Bound
INVARIANTS WF QuotientTheory
PROPERTIES FailAtomic QuotientClears AppendOnly
CHECK_DEADLOCK FALSE
