SPECIFICATION Spec
CONSTANTS N = 3  E = 0  A = 0  I = 1  Q = 2  NL = {0, 1}  EL = {0}  Fam = {"quotient"}
CONSTRAINT Bound
INVARIANTS WF QuotientTheory
PROPERTIES FailAtomic QuotientClears
CHECK_DEADLOCK FALSE
