------------------------------ MODULE MC_C19 ------------------------------
(* C19: (a) the Var / operator interface: all builder scripts of at most L    *)
(* steps (any sharing of variables, handles that outlive the builder);         *)
(* (b) forgetting: all well-formed lax terms in the bound whose hyperedges may  *)
(* carry the variable label, any arity and label mix.                          *)
EXTENDS Domains, Emit
CONSTANTS L, MaxV, NL, N, E, A, I, Fam, BinK
VARIABLES stage, kind, script, nv, f
vars == <<stage, kind, script, nv, f>>
P == <<"C19">>
Vars == Range0(nv)
Steps ==
  {[k |-> "var", label |-> lab] : lab \in NL}
  \cup {[k |-> op, l |-> a, r |-> b] : op \in BinK, a \in Vars, b \in Vars}
  \cup {[k |-> "neg", l |-> a] : a \in Vars}
  \cup {[k |-> "op", vars |-> vs, results |-> rs, x |-> 13] : vs \in SeqsOfLen(Vars, 2), rs \in {<<0, 0>>}}
  \cup {[k |-> "op", vars |-> <<>>, results |-> <<lab>>, x |-> 6] : lab \in NL}
  \cup {[k |-> "fnop", vars |-> <<a>>, result |-> 0, x |-> 10] : a \in Vars}
  \cup {[k |-> "leak", v |-> a] : a \in Vars}
Added(s) == CASE s.k = "var" -> 1 [] s.k = "op" -> Len(s.results) [] s.k = "leak" -> 0 [] OTHER -> 1
X1(k) == [i \in 1 .. k |-> 2 * i + 1]
X2(k) == [i \in 1 .. k |-> (250 + 7 * i) % 256]
Init == stage = 0 /\ kind = "none" /\ script = <<>> /\ nv = 0 /\ f = LaxEmpty
Start == stage = 0 /\ stage' = 1 /\ kind' \in ((IF "script" \in Fam THEN {"script"} ELSE {}) \cup (IF "forget" \in Fam THEN {"forget"} ELSE {})) /\ UNCHANGED <<script, nv, f>>
AddStep == /\ stage = 1 /\ kind = "script" /\ Len(script) < L /\ UNCHANGED <<stage, kind, f>>
           /\ \E s \in Steps : nv + Added(s) <= MaxV /\ script' = Append(script, s) /\ nv' = nv + Added(s)
Finish == /\ stage = 1 /\ kind = "script" /\ stage' = 2 /\ UNCHANGED <<kind, script, nv>>
          /\ \E srcs \in SeqsUpTo(Vars, 2), tgts \in SeqsUpTo(Vars, 2) :
               /\ f' = VBuild(script, srcs, tgts)
               /\ EmitCase("var.script", P, [script |-> script, srcs |-> srcs, tgts |-> tgts])
               /\ (~Leaks(script) => LET p == Strictify(f')  k == Len(f'.sources) IN
                     EmitCase("var.forget_eval", P, [f |-> f', inputs |-> <<X1(k), X2(k)>>]))
\* forgetting: node labels, then hyperedges, then interfaces (staged, so that TLC's workers share the work)
LoadW == /\ stage = 1 /\ kind = "forget" /\ stage' = 3 /\ UNCHANGED <<kind, script, nv>>
         /\ \E n \in 0 .. N : \E w \in SeqsOfLen(NL, n) : f' = PlainToLax(OH(w, <<>>, <<>>, <<>>))
LoadE == /\ stage = 3 /\ stage' = 4 /\ UNCHANGED <<kind, script, nv>>
         /\ \E e \in SeqsUpTo(EdgesOver(LN(f), A, {0, 5}), E) : f' = PlainToLax(OH(f.nodes, e, <<>>, <<>>))
LoadTerm == /\ stage = 4 /\ stage' = 2 /\ UNCHANGED <<kind, script, nv>>
            /\ \E s \in SeqsUpTo(Range0(LN(f)), I), t \in SeqsUpTo(Range0(LN(f)), I) :
                 LET d == [f EXCEPT !.sources = s, !.targets = t] IN
                 f' = d /\ EmitCase("var.forget", P, [f |-> d]) /\ EmitCase("var.forget_monogamous", P, [f |-> d])
Next == Start \/ AddStep \/ Finish \/ LoadW \/ LoadE \/ LoadTerm
Spec == Init /\ [][Next]_vars

NonVarEdges(st) == Cardinality({i \in 1 .. LE(st) : st.edges[i] # VarLabel})
OperatorSteps(s) == Cardinality({i \in 1 .. Len(s) : s[i].k \notin {"var", "leak"}})
BuildTheorem ==
  stage = 2 /\ kind = "script" =>
    /\ WFLax(f) /\ LaxIsStrict(f)
    /\ NonVarEdges(f) = OperatorSteps(script)                       \* one hyperedge per applied operator
    /\ Cardinality({i \in 1 .. LE(f) : f.edges[i] = VarLabel}) = nv  \* one variable hyperedge per variable
    /\ IsInjectiveSeq(AllSources(LaxToPlain(f)) \o f.targets) /\ IsInjectiveSeq(AllTargets(LaxToPlain(f)) \o f.sources)   \* every use / definition has its own node
ForgetTheorem ==
  stage = 2 =>
    LET p == Strictify(f)  r == ForgetRef(p, FALSE)  rm == ForgetRef(p, TRUE) IN
    /\ WFPlain(r) /\ SrcType(r) = SrcType(p) /\ TgtType(r) = TgtType(p)
    /\ WFPlain(rm) /\ SrcType(rm) = SrcType(p) /\ TgtType(rm) = TgtType(p)
    \* forgetting keeps the meaning (variable hyperedges read as copies)
    /\ (kind = "script" /\ ~Leaks(script) /\ DepAcyclic(r) /\ SingleWriter(r) /\ CopyLike(p) /\ NodeAcyclic(p)
          /\ (\A k \in 1 .. NE(p) : p.e[k].l = VarLabel \/ (p.e[k].l \in SigLabels /\ Len(p.e[k].s) = Arity(p.e[k].l) /\ Len(p.e[k].t) = Coarity(p.e[k].l))) =>
          EvalRef(r, X1(Len(p.s))) = EvalVarRef(p, X1(Len(p.s))))
=============================================================================
