SPECIFICATION Spec
CONSTANTS N = 1  E = 1  A = 1  I = 1  NL = {0, 1}  EL = {0}  N3 = 0  Q = 1  LxN = 1  LxN3 = 0
INVARIANTS TensorLaws
CHECK_DEADLOCK FALSE
