------------------------------ MODULE MC_Quot ------------------------------
(* C09, deeper: quotient on larger node sets and longer lists of pending pairs *)
(* than the builder machine reaches (chains of three and more dependent pairs, *)
(* in every order).  The diagram has one hyperedge and interfaces that mention  *)
(* every node, so that the rewriting of all references is observed.             *)
EXTENDS Domains, Emit
CONSTANTS N, Q, NL
VARIABLES stage, st
vars == <<stage, st>>
P == <<"C09">>
Frame(w) == LET n == Len(w) IN
  [nodes |-> w, edges |-> <<7>>, adj |-> <<HE(Arange(0, n), IF n = 0 THEN <<>> ELSE <<n - 1>>)>>,
   ql |-> <<>>, qr |-> <<>>, sources |-> Arange(0, n), targets |-> [i \in 1 .. n |-> n - i]]
Emits(s) == EmitCase("lax.quotient", P, [pre |-> s]) /\ EmitCase("lax.h.coequalizer", P, [pre |-> s])
Init == stage = 0 /\ st = LaxEmpty
LoadW == stage = 0 /\ stage' = 1 /\ \E n \in 0 .. N : \E w \in SeqsOfLen(NL, n) : st' = Frame(w)
AddPair == stage >= 1 /\ stage <= Q /\ stage' = stage + 1 /\
           \E v \in Range0(LN(st)), u \in Range0(LN(st)) : st' = LUnify(st, v, u) /\ Emits(st')
Next == LoadW \/ AddPair
Spec == Init /\ [][Next]_vars
QuotientTheory ==
  LET q == CanonQuotMap(st) IN
  /\ IsQuotientMap(st, q)
  /\ (LaxConsistent(st) => LET p == LApplyQuot(st, q.table, q.target) IN WFLax(p) /\ LaxIsStrict(p) /\ Iso(LaxToPlain(p), Strictify(st)))
=============================================================================
