------------------------------ MODULE MC_C15 ------------------------------
(* C15 (+C17): layering, the graph routines behind it, and the structural   *)
(* predicates, over all diagrams of the given shapes.                        *)
EXTENDS Domains, Emit
CONSTANTS ShapeName, NL, EL, Fam, I
VARIABLES stage, f
vars == <<stage, f>>
\* staged choice (node labels, then hyperedges, then interfaces): successors of many parents are
\* generated in parallel by TLC's workers; cases are emitted at the last stage
Shapes == CASE ShapeName = "q15" -> {<<2, 2, 2>>, <<3, 2, 1>>, <<2, 3, 1>>, <<1, 3, 2>>}
            [] ShapeName = "q15b" -> {<<2, 3, 2>>}
            [] ShapeName = "tail" -> {<<3, 3, 1>>}
            [] ShapeName = "wide" -> {<<1, 5, 1>>, <<2, 4, 1>>}
            [] ShapeName = "t15" -> {<<2, 3, 2>>, <<3, 3, 1>>, <<3, 2, 2>>}
            [] ShapeName = "q17" -> {<<2, 2, 2>>, <<3, 1, 3>>, <<3, 2, 1>>}
            [] ShapeName = "t17" -> {<<2, 2, 2>>, <<3, 2, 1>>, <<2, 1, 3>>}
            [] ShapeName = "tiny" -> {<<2, 1, 2>>, <<1, 2, 2>>}
P15 == <<"C15">>
P17 == <<"C17">>
Em(flag, op, props, args) == IF flag THEN EmitCase(op, props, args) ELSE TRUE
Lay == "layer" \in Fam
Hooks == "hooks" \in Fam
PHooks == "predhooks" \in Fam
Pred == "pred" \in Fam
Emits(d) ==
  LET pf == Pack(d)  adj == OpAdjacencyRef(d) IN
  /\ Em(Lay, "strict.layer", P15, [f |-> pf]) /\ Em(Lay, "strict.layered_operations", P15, [f |-> pf])
  /\ Em(Hooks, "hook.operation_adjacency", P15, [h |-> pf.h]) /\ Em(Hooks, "hook.converse", P15, [r |-> pf.h.s])
  /\ Em(Hooks, "hook.kahn", P15, [adj |-> PackFF(adj, NE(d))]) /\ Em(Hooks, "hook.indegree", P15, [adj |-> PackFF(adj, NE(d))])
  /\ Em(Pred, "strict.is_acyclic", P17, [f |-> pf]) /\ Em(Pred, "hyper.is_acyclic", P17, [h |-> pf.h])
  /\ Em(Pred, "strict.is_monogamous", P17, [f |-> pf]) /\ Em(PHooks, "hook.node_adjacency", P17, [h |-> pf.h])
  /\ \A v \in Range0(NN(d)) : Em(Pred, "hyper.in_degree", P17, [h |-> pf.h, node |-> v]) /\ Em(Pred, "hyper.out_degree", P17, [h |-> pf.h, node |-> v])
Init == stage = 0 /\ f = EmptyOH
LoadW == stage = 0 /\ stage' = 3 /\ \E sh \in Shapes, n \in 0 .. 3 : n <= sh[1] /\ \E w \in SeqsOfLen(NL, n) : f' = OH(w, <<sh[2], sh[3]>>, <<>>, <<>>)
LoadE == stage = 3 /\ stage' = 2 /\ \E e \in SeqsUpTo(EdgesOver(NN(f), f.e[2], EL), f.e[1]) : f' = OH(f.w, e, <<>>, <<>>)
LoadI == stage = 2 /\ stage' = 1 /\ \E s \in SeqsUpTo(Range0(NN(f)), I), t \in SeqsUpTo(Range0(NN(f)), I) : f' = OH(f.w, f.e, s, t) /\ Emits(f')
Next == LoadW \/ LoadE \/ LoadI
Spec == Init /\ [][Next]_vars

\* the transcribed level-synchronous Kahn ends in a valid minimal layering (and terminates within |X|+1 rounds)
KahnTheorem == stage = 1 /\ Lay => LET k == KahnRef(OpAdjacencyRef(f)) IN ValidLayering(NE(f), Dep(f), k.order, k.unvisited)
AdjacencyTheorem == stage = 1 /\ Lay => AdjToDep(OpAdjacencyRef(f)) = Dep(f)
\* C17: "degree + interface count = 1" formula <=> the definition in words; node-level Kahn <=> no node reaches itself
PredicateTheorem ==
  stage = 1 /\ Pred =>
    /\ Monogamous(f) <=> MonogamousDef(f)
    /\ LET k == KahnRef(NodeAdjacencyRef(f)) IN (\A v \in 1 .. NN(f) : k.unvisited[v] = 0) <=> NodeAcyclic(f)
=============================================================================
