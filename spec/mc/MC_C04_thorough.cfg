SPECIFICATION Spec
CONSTANTS N = 2  E = 1  A = 1  I = 1  NL = {0, 1}  EL = {0}  SN = 3  SL = 2  RT = 3
INVARIANTS Laws
CHECK_DEADLOCK FALSE
