----------------------------- MODULE StrictRep -----------------------------
(***************************************************************************)
(* The strict representation used by the library (segmented arrays) and   *)
(* its relation to the plain model.                                        *)
(*   hypergraph  [s, t : IC(ff), w : labels, x : labels]                    *)
(*   open        [s, t : FF, h : hypergraph]                                *)
(* Abs : representation -> plain model;  Pack : plain model -> canonical    *)
(* representation;  WFStrict : deep well-formedness (C05) - unlike the       *)
(* library's validate() it looks inside every table.                        *)
(***************************************************************************)
EXTENDS Hyper

HG(s, t, w, x) == [s |-> s, t |-> t, w |-> w, x |-> x]
SOH(s, t, h) == [s |-> s, t |-> t, h |-> h]

WFHyper(h) ==
  /\ WFSegFF(h.s) /\ WFSegFF(h.t)
  /\ NumSegs(h.s) = Len(h.x) /\ NumSegs(h.t) = Len(h.x)         \* one source list, one target list per hyperedge
  /\ h.s.values.target = Len(h.w) /\ h.t.values.target = Len(h.w)
WFStrict(f) ==
  /\ WFHyper(f.h)
  /\ WFFF(f.s) /\ WFFF(f.t)
  /\ f.s.target = Len(f.h.w) /\ f.t.target = Len(f.h.w)

\* what the library's own validate() demands (shallow): used for the checked constructors
HyperNewAccepts(h) ==
  /\ NumSegs(h.s) = Len(h.x) /\ NumSegs(h.t) = Len(h.x)
  /\ h.s.values.target = Len(h.w) /\ h.t.values.target = Len(h.w)
OpenNewAccepts(f) == HyperNewAccepts(f.h) /\ f.s.target = Len(f.h.w) /\ f.t.target = Len(f.h.w)

AbsH(h) == LET ss == SegsFF(h.s)  ts == SegsFF(h.t) IN
   [w |-> h.w, e |-> [i \in 1 .. Len(h.x) |-> Edge(h.x[i], ss[i], ts[i])]]
Abs(f) == LET a == AbsH(f.h) IN OH(a.w, a.e, f.s.table, f.t.table)

PackH(p) == HG(PackFF([i \in 1 .. Len(p.e) |-> p.e[i].s], Len(p.w)),
               PackFF([i \in 1 .. Len(p.e) |-> p.e[i].t], Len(p.w)),
               p.w, [i \in 1 .. Len(p.e) |-> p.e[i].l])
Pack(p) == SOH(FF(p.s, Len(p.w)), FF(p.t, Len(p.w)), PackH(p))

StrictSrcType(f) == Thru(f.s.table, f.h.w)
StrictTgtType(f) == Thru(f.t.table, f.h.w)
=============================================================================
