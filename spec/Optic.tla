------------------------------- MODULE Optic -------------------------------
(***************************************************************************)
(* C14: optics given by tables                                             *)
(*   T = [fwd |-> functor table, rev |-> functor table,                     *)
(*        residual |-> <<[l, m], ...>>]   (m : list of objects per operation) *)
(* For an operation x : a -> b with residual M:                              *)
(*    fwd(x) : F a -> F b . M          rev(x) : M . R b -> R a               *)
(* The optic functor is *defined* generator-wise (OpticOp) and applied with  *)
(* Substitute; the library computes it for all operations at once with       *)
(* block interleavings - the conformance check is that the two agree up to   *)
(* Iso.  Also: the standard reverse-derivative lenses of polynomial circuits  *)
(* and the reference reverse derivative (adjoint propagation).               *)
(***************************************************************************)
EXTENDS Functor

Residual(T, l) == IF \E r \in RangeOf(T.residual) : r.l = l THEN (CHOOSE r \in RangeOf(T.residual) : r.l = l).m ELSE <<>>
\* interleaved type: F(A_0) R(A_0) F(A_1) R(A_1) ...
ILeave(T, ty) == FlatSeq([i \in 1 .. Len(ty) |-> FObj(T.fwd, ty[i]) \o FObj(T.rev, ty[i])])
\* positions (1-based) of the F parts / R parts inside an interleaved interface list
FPos(T, ty) == FlatSeq([i \in 1 .. Len(ty) |-> [j \in 1 .. Len(FObj(T.fwd, ty[i])) |-> Len(ILeave(T, SubSeq(ty, 1, i - 1))) + j]])
RPos(T, ty) == FlatSeq([i \in 1 .. Len(ty) |-> [j \in 1 .. Len(FObj(T.rev, ty[i])) |->
                        Len(ILeave(T, SubSeq(ty, 1, i - 1))) + Len(FObj(T.fwd, ty[i])) + j]])
Sel(s, ps) == [i \in 1 .. Len(ps) |-> s[ps[i]]]
\* list lst = (F parts ++ R parts) re-arranged into interleaved order
InterleaveList(T, lst, ty) ==
  LET fp == FPos(T, ty)  rp == RPos(T, ty)  nF == Len(fp) IN
  [p \in 1 .. Len(lst) |-> IF \E i \in 1 .. Len(fp) : fp[i] = p THEN lst[CHOOSE i \in 1 .. Len(fp) : fp[i] = p]
                          ELSE lst[nF + (CHOOSE i \in 1 .. Len(rp) : rp[i] = p)]]

OpticOpApplicable(T, l, a, b) ==
  /\ FHasOp(T.fwd, l, a, b) /\ FHasOp(T.rev, l, a, b)
  /\ LET fx == FOpImg(T.fwd, l, a, b)  rx == FOpImg(T.rev, l, a, b)  m == Residual(T, l) IN
     /\ WFPlain(fx) /\ WFPlain(rx)
     /\ SrcType(fx) = FType(T.fwd, a) /\ TgtType(fx) = FType(T.fwd, b) \o m
     /\ SrcType(rx) = m \o FType(T.rev, b) /\ TgtType(rx) = FType(T.rev, a)
OpticApplicable(T, f) ==
  /\ \A i \in 1 .. NN(f) : f.w[i] + 1 \in 1 .. Len(T.fwd.obj) /\ f.w[i] + 1 \in 1 .. Len(T.rev.obj)
  /\ \A i \in 1 .. NE(f) : OpticOpApplicable(T, f.e[i].l, Lab(f, f.e[i].s), Lab(f, f.e[i].t))

\* optic image of one operation l : a -> b, of type  interleave(F a, R a) -> interleave(F b, R b)
OpticOp(T, l, a, b) ==
  LET fa == FType(T.fwd, a)  fb == FType(T.fwd, b)  ra == FType(T.rev, a)  rb == FType(T.rev, b)
      fx == FOpImg(T.fwd, l, a, b)  rx == FOpImg(T.rev, l, a, b)
      c == ComposeRef(TensorRef(fx, IdentityRef(rb)), TensorRef(IdentityRef(fb), rx))      \* Fa.Rb -> Fb.Ra
      \* partial dagger: d : Fa.Ra -> Fb.Rb
      ds == SubSeq(c.s, 1, Len(fa)) \o SubSeq(c.t, Len(fb) + 1, Len(fb) + Len(ra))
      dt == SubSeq(c.t, 1, Len(fb)) \o SubSeq(c.s, Len(fa) + 1, Len(fa) + Len(rb))
  IN OH(c.w, c.e, InterleaveList(T, ds, a), InterleaveList(T, dt, b))
\* the optic as a functor table, restricted to the operations occurring in f
OpticFunctor(T, f) ==
  [obj |-> [o \in 1 .. Len(T.fwd.obj) |-> T.fwd.obj[o] \o T.rev.obj[o]],
   ops |-> SetToSeqAny({[l |-> f.e[i].l, a |-> Lab(f, f.e[i].s), b |-> Lab(f, f.e[i].t),
                         img |-> OpticOp(T, f.e[i].l, Lab(f, f.e[i].s), Lab(f, f.e[i].t))] : i \in 1 .. NE(f)})]
OpticArrow(T, f) == Substitute(OpticFunctor(T, f), f)
\* adapt: un-interleave and bend:  c : interleave(FA,RA) -> interleave(FB,RB)   |->   FA.RB -> FB.RA
AdaptRef(T, c, a, b) ==
  OH(c.w, c.e, Sel(c.s, FPos(T, a)) \o Sel(c.t, RPos(T, b)), Sel(c.t, FPos(T, b)) \o Sel(c.s, RPos(T, a)))

(* ---- polynomial circuits: signature labels of Eval.tla; one object 0 ---- *)
\* 1 add 2 mul 3 neg 4 copy 5 discard 6 one 7 zero
Gen(l) == SingletonRef(l, [i \in 1 .. Arity(l) |-> 0], [i \in 1 .. Coarity(l) |-> 0])
Ty(n) == [i \in 1 .. n |-> 0]
IdN(n) == IdentityRef(Ty(n))
\* standard reverse-derivative lenses
StdFwd(l) ==
  IF l = 2 THEN  \* (x, y) |-> (x*y, x, y): copy both inputs, multiply one pair, keep the other as residual
       LET cc == TensorRef(Gen(4), Gen(4))                                         \* x x y y
           perm == OH(Ty(4), <<>>, <<0, 1, 2, 3>>, <<0, 2, 1, 3>>)                  \* x y x y
       IN ComposeRef(ComposeRef(cc, perm), TensorRef(Gen(2), IdN(2)))              \* x*y, x, y
  ELSE Gen(l)
StdRev(l) ==
  CASE l = 1 -> Gen(4)                                                              \* dz |-> (dz, dz)
    [] l = 2 -> \* (x, y, dz) |-> (y*dz, x*dz)
         LET cdz == TensorRef(IdN(2), Gen(4))                                       \* x y dz dz
             perm == OH(Ty(4), <<>>, <<0, 1, 2, 3>>, <<1, 2, 0, 3>>)                \* y dz x dz
         IN ComposeRef(ComposeRef(cdz, perm), TensorRef(Gen(2), Gen(2)))
    [] l = 3 -> Gen(3)
    [] l = 4 -> Gen(1)                                                              \* (d1, d2) |-> d1 + d2
    [] l = 5 -> Gen(7)                                                              \* () |-> 0
    [] l = 6 -> Gen(5)
    [] l = 7 -> Gen(5)
PolyLabels == 1 .. 7
StdLensTable ==
  LET keys == SetToSeqAny(PolyLabels) IN
  [fwd |-> [obj |-> <<<<0>>>>, ops |-> [i \in 1 .. Len(keys) |-> [l |-> keys[i], a |-> Ty(Arity(keys[i])), b |-> Ty(Coarity(keys[i])), img |-> StdFwd(keys[i])]]],
   rev |-> [obj |-> <<<<0>>>>, ops |-> [i \in 1 .. Len(keys) |-> [l |-> keys[i], a |-> Ty(Arity(keys[i])), b |-> Ty(Coarity(keys[i])), img |-> StdRev(keys[i])]]],
   residual |-> <<[l |-> 2, m |-> <<0, 0>>]>>]

\* reference reverse derivative of a monogamous acyclic circuit by adjoint propagation on the source circuit
RECURSIVE Adj(_, _, _, _)
Adj(f, x, dy, v) ==
  IF \E i \in 1 .. Len(f.t) : f.t[i] = v THEN dy[PosIn(f.t, v)]
  ELSE LET k == CHOOSE k \in 1 .. NE(f) : \E j \in 1 .. Len(f.e[k].s) : f.e[k].s[j] = v
           e == f.e[k]
           p == PosIn(e.s, v)
       IN CASE e.l = 1 -> Adj(f, x, dy, e.t[1])
            [] e.l = 2 -> (Val(f, x, e.s[3 - p]) * Adj(f, x, dy, e.t[1])) % M
            [] e.l = 3 -> (M - Adj(f, x, dy, e.t[1])) % M
            [] e.l = 4 -> (Adj(f, x, dy, e.t[1]) + Adj(f, x, dy, e.t[2])) % M
            [] e.l = 5 -> 0
RevDerivRef(f, x, dy) == [i \in 1 .. Len(f.s) |-> Adj(f, x, dy, f.s[i])]
=============================================================================
