----------------------------- MODULE VarBuilder -----------------------------
(***************************************************************************)
(* C19: the Var / operator interface as a machine over LaxMachine, and the  *)
(* forgetting functors.  A handle is [edge, label]; the distinguished       *)
(* variable label is 0.  A script is a sequence of steps                     *)
(*   [k |-> "var", label] | [k |-> "op", vars, results, x] |                 *)
(*   [k |-> "fnop", vars, result, x] | binary / unary operator steps |        *)
(*   [k |-> "leak", v]                                                        *)
(***************************************************************************)
EXTENDS Optic

VarLabel == 0
BinOpLabel(k) == CASE k = "add" -> 1 [] k = "mul" -> 2 [] k = "and" -> 8 [] k = "xor" -> 9
                   [] k = "sub" -> 14 [] k = "div" -> 15 [] k = "or" -> 16 [] k = "shl" -> 17 [] k = "shr" -> 18
UnOpLabel(k) == CASE k = "neg" -> 3 [] k = "not" -> 10
BinOps == {"add", "mul", "and", "xor", "sub", "div", "or", "shl", "shr"}
UnOps == {"neg", "not"}

\* builder state: [st : lax state, env : handles]
VNew(b, label) == LET r == LNewOperation(b.st, VarLabel, <<>>, <<>>) IN
                  [st |-> r.st, env |-> Append(b.env, [edge |-> r.ret.edge, label |-> label])]
\* fresh target node on each of the handles hs, in order:  [st, nodes]
RECURSIVE VTargets(_, _, _)
VTargets(st, hs, acc) == IF hs = <<>> THEN [st |-> st, nodes |-> acc]
                         ELSE LET r == LAddEdgeTarget(st, Head(hs).edge, Head(hs).label) IN VTargets(r.st, Tail(hs), Append(acc, r.ret))
RECURSIVE VSources(_, _, _)
VSources(st, hs, acc) == IF hs = <<>> THEN [st |-> st, nodes |-> acc]
                         ELSE LET r == LAddEdgeSource(st, Head(hs).edge, Head(hs).label) IN VSources(r.st, Tail(hs), Append(acc, r.ret))
RECURSIVE VNewAll(_, _)
VNewAll(b, labels) == IF labels = <<>> THEN b ELSE VNewAll(VNew(b, Head(labels)), Tail(labels))
\* operation(vars, result types, x): uses of the operands, then the result variables, then their definitions, then the hyperedge
VOperation(b, vars, results, x) ==
  LET uses == VTargets(b.st, [i \in 1 .. Len(vars) |-> b.env[vars[i] + 1]], <<>>)
      b2 == VNewAll([st |-> uses.st, env |-> b.env], results)
      newh == SubSeq(b2.env, Len(b.env) + 1, Len(b2.env))
      defs == VSources(b2.st, newh, <<>>)
      e == LNewEdge(defs.st, x, uses.nodes, defs.nodes)
  IN [st |-> e.st, env |-> b2.env]
VStep(b, s) ==
  CASE s.k = "var" -> VNew(b, s.label)
    [] s.k = "op" -> VOperation(b, s.vars, s.results, s.x)
    [] s.k = "fnop" -> VOperation(b, s.vars, <<s.result>>, s.x)
    [] s.k \in BinOps -> VOperation(b, <<s.l, s.r>>, <<b.env[s.l + 1].label>>, BinOpLabel(s.k))
    [] s.k \in UnOps -> VOperation(b, <<s.l>>, <<b.env[s.l + 1].label>>, UnOpLabel(s.k))
    [] s.k = "leak" -> b
RECURSIVE VRun(_, _)
VRun(b, script) == IF script = <<>> THEN b ELSE VRun(VStep(b, Head(script)), Tail(script))
\* build: run the script, then declare inputs (a definition each) and outputs (a use each)
VBuild(script, srcs, tgts) ==
  LET b == VRun([st |-> LaxEmpty, env |-> <<>>], script)
      s == VSources(b.st, [i \in 1 .. Len(srcs) |-> b.env[srcs[i] + 1]], <<>>)
      t == VTargets(s.st, [i \in 1 .. Len(tgts) |-> b.env[tgts[i] + 1]], <<>>)
  IN [t.st EXCEPT !.sources = s.nodes, !.targets = t.nodes]
Leaks(script) == \E i \in 1 .. Len(script) : script[i].k = "leak"

(* ---- forgetting ---- *)
AllEqual(s) == \A i, j \in 1 .. Len(s) : s[i] = s[j]
\* image of one hyperedge under Forget: uniform variable operations become a single merged node
ForgetImg(l, a, b, mono) ==
  IF l = VarLabel /\ AllEqual(a \o b) /\ (mono => Len(a) = 1 /\ Len(b) = 1)
  THEN IF a = <<>> /\ b = <<>> THEN EmptyOH
       ELSE SpiderRef([i \in 1 .. Len(a) |-> 0], [i \in 1 .. Len(b) |-> 0], <<(a \o b)[1]>>)
  ELSE SingletonRef(l, a, b)
ForgetFunctor(f, NL, mono) ==
  [obj |-> [o \in 1 .. NL |-> <<o - 1>>],
   ops |-> SetToSeqAny({[l |-> f.e[i].l, a |-> Lab(f, f.e[i].s), b |-> Lab(f, f.e[i].t),
                         img |-> ForgetImg(f.e[i].l, Lab(f, f.e[i].s), Lab(f, f.e[i].t), mono)] : i \in 1 .. NE(f)})]
MaxLabel(f) == IF f.w = <<>> THEN 0 ELSE SetMax(RangeOf(f.w))
ForgetRef(f, mono) == Substitute(ForgetFunctor(f, MaxLabel(f) + 1, mono), f)
\* variable hyperedges that can be read as copies: at most one definition
CopyLike(f) == \A i \in 1 .. NE(f) : f.e[i].l = VarLabel => Len(f.e[i].s) <= 1
=============================================================================
