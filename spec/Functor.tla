------------------------------ MODULE Functor ------------------------------
(***************************************************************************)
(* C12, C13: functors given by tables.                                     *)
(*   F = [obj |-> <<list for label 0, list for label 1, ...>>,              *)
(*        ops |-> <<[l, a, b, img], ...>>]    img : plain open hypergraph    *)
(* Substitute: the direct definition (one block of nodes per node, one copy *)
(* of the image per hyperedge, glued along the expanded lists).             *)
(* SpiderDecomposition: the library's formula sx ; (id (x) Fx) ; yt,         *)
(* transcribed (design theorem: both agree up to Iso).                       *)
(***************************************************************************)
EXTENDS Morphism

FObj(F, o) == F.obj[o + 1]
FObjSeq(F, w) == [i \in 1 .. Len(w) |-> FObj(F, w[i])]
FType(F, w) == FlatSeq(FObjSeq(F, w))
FOpImg(F, l, a, b) == (CHOOSE r \in RangeOf(F.ops) : r.l = l /\ r.a = a /\ r.b = b).img
FHasOp(F, l, a, b) == \E r \in RangeOf(F.ops) : r.l = l /\ r.a = a /\ r.b = b
\* offset of block i (1-based) in the flattened block list
BlockOff(blocks, i) == SumSeq([k \in 1 .. (i - 1) |-> Len(blocks[k])])
\* expand a list of node ids into the ids of their blocks
ExpandIds(blocks, s) == FlatSeq([i \in 1 .. Len(s) |-> [j \in 1 .. Len(blocks[s[i] + 1]) |-> BlockOff(blocks, s[i] + 1) + j - 1]])

Substitute(F, f) ==
  LET blocks == FObjSeq(F, f.w)
      nb == Len(FlatSeq(blocks))
      base == OH(FlatSeq(blocks), <<>>, <<>>, <<>>)
      imgs == [i \in 1 .. NE(f) |-> FOpImg(F, f.e[i].l, Lab(f, f.e[i].s), Lab(f, f.e[i].t))]
      all == TensorRef(base, TensorAll(imgs))
      imgOff(i) == nb + SumSeq([k \in 1 .. (i - 1) |-> NN(imgs[k])])
      pairs == UNION {LET es == ExpandIds(blocks, f.e[i].s)  et == ExpandIds(blocks, f.e[i].t) IN
                        {<<es[j], imgs[i].s[j] + imgOff(i)>> : j \in 1 .. Len(es)} \cup
                        {<<et[j], imgs[i].t[j] + imgOff(i)>> : j \in 1 .. Len(et)} : i \in 1 .. NE(f)}
  IN QuotientBy(OH(all.w, all.e, ExpandIds(blocks, f.s), ExpandIds(blocks, f.t)), pairs)
\* the functor is applicable to f: every operation of f has an image of the right type
FApplicable(F, f) ==
  /\ \A i \in 1 .. NN(f) : f.w[i] + 1 \in 1 .. Len(F.obj)
  /\ \A i \in 1 .. NE(f) : LET a == Lab(f, f.e[i].s)  b == Lab(f, f.e[i].t) IN
        /\ FHasOp(F, f.e[i].l, a, b)
        /\ LET img == FOpImg(F, f.e[i].l, a, b) IN WFPlain(img) /\ SrcType(img) = FType(F, a) /\ TgtType(img) = FType(F, b)

\* transcription of define_map_arrow / spider_map_arrow
SpiderDecomposition(F, f) ==
  LET blocks == FObjSeq(F, f.w)
      fw == FlatSeq(blocks)
      n == Len(fw)
      imgs == [i \in 1 .. NE(f) |-> FOpImg(F, f.e[i].l, Lab(f, f.e[i].s), Lab(f, f.e[i].t))]
      fx == TensorAll(imgs)
      idn == Arange(0, n)
      sx == SpiderRef(ExpandIds(blocks, f.s), idn \o ExpandIds(blocks, AllSources(f)), fw)
      yt == SpiderRef(idn \o ExpandIds(blocks, AllTargets(f)), ExpandIds(blocks, f.t), fw)
  IN ComposeRef(ComposeRef(sx, TensorRef(IdentityRef(fw), fx)), yt)

IdentityFunctorOn(f, NL) ==
  [obj |-> [o \in 1 .. NL |-> <<o - 1>>],
   ops |-> SetToSeqAny({[l |-> f.e[i].l, a |-> Lab(f, f.e[i].s), b |-> Lab(f, f.e[i].t),
                         img |-> SingletonRef(f.e[i].l, Lab(f, f.e[i].s), Lab(f, f.e[i].t))] : i \in 1 .. NE(f)})]

(* ---- C13: witness of the native lax path ---- *)
\* witness : segmented array; segment i lists the output nodes standing for input node i
WitnessOK(F, f, out, wit, q) ==
  \* f : plain input (quotient-free); out : lax result before quotient; q : its quotient map (table); wit : list of lists
  /\ Len(wit) = NN(f)
  /\ \A i \in 1 .. NN(f) :
        /\ Len(wit[i]) = Len(FObj(F, f.w[i]))
        /\ InRangeSeq(wit[i], Len(out.nodes))
        /\ Thru(wit[i], out.nodes) = FObj(F, f.w[i])                       \* labels of F(label of i), in order
  /\ Thru(FlatSeq([k \in 1 .. Len(f.s) |-> wit[f.s[k] + 1]]), q) = Thru(out.sources, q)   \* interfaces pushed through
  /\ Thru(FlatSeq([k \in 1 .. Len(f.t) |-> wit[f.t[k] + 1]]), q) = Thru(out.targets, q)
=============================================================================
