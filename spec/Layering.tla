------------------------------ MODULE Layering ------------------------------
(***************************************************************************)
(* C15: layering.  A dependency relation D over items 1..n is a set of      *)
(* pairs <<x, y>> meaning "y depends on x".  The property is stated for any *)
(* D; for diagrams D = Dep(f) (Hyper.tla).  Also: the level-synchronous     *)
(* Kahn algorithm of the library, transcribed, and the graph routines       *)
(* (converse, adjacency, in-degree) as list-of-lists functions.             *)
(***************************************************************************)
EXTENDS LaxMachine

OnCycle(D) == LET T == TC(D) IN {p[1] : p \in {q \in T : q[1] = q[2]}}
\* items on or downstream of a dependency cycle
Blocked(n, D) == LET T == TC(D)  C == OnCycle(D) IN C \cup {y \in 1 .. n : \E c \in C : <<c, y>> \in T}
\* number of items on the longest dependency chain ending in v (v not blocked)
RECURSIVE ChainLen(_, _)
ChainLen(D, v) == LET P == {p[1] : p \in {q \in D : q[2] = v}} IN
                  IF P = {} THEN 1 ELSE 1 + SetMax({ChainLen(D, u) : u \in P})
LongestChain(n, D) == LET V == (1 .. n) \ Blocked(n, D) IN IF V = {} THEN 0 ELSE SetMax({ChainLen(D, v) : v \in V})

\* order : layer of each item (0-based values); unvisited : 1 = not visited, 0 = visited
ValidLayering(n, D, order, unvisited) ==
  /\ Len(order) = n /\ Len(unvisited) = n
  /\ \A v \in 1 .. n : unvisited[v] \in {0, 1} /\ (unvisited[v] = 1 <=> v \in Blocked(n, D))
  /\ LET V == (1 .. n) \ Blocked(n, D) IN
     /\ \A p \in D : p[2] \in V => order[p[1]] < order[p[2]]      \* strictly above everything it depends on
     /\ \A v \in V : order[v] >= 0
     /\ V # {} => SetMax({order[v] : v \in V}) + 1 = LongestChain(n, D)   \* as shallow as possible, from 0
\* grouped form: every visited item exactly once, in the group of its layer
ValidGrouping(n, D, groups, unvisited) ==
  LET V == (1 .. n) \ Blocked(n, D)
      flat == FlatSeq(groups)
      grpOf(v) == CHOOSE k \in 1 .. Len(groups) : \E j \in 1 .. Len(groups[k]) : groups[k][j] = v - 1
  IN /\ \A v \in V : Count(flat, v - 1) = 1
     /\ ValidLayering(n, D, [v \in 1 .. n |-> IF v \in V THEN grpOf(v) - 1 ELSE 0], unvisited)

(* ---- transcription of the library's level-synchronous Kahn (model-level design theorem) ---- *)
\* adjacency as a list of lists: adj[v] = successors of v (0-based ids, with multiplicity)
AdjToDep(adj) == UNION {{<<v, adj[v][j] + 1>> : j \in 1 .. Len(adj[v])} : v \in 1 .. Len(adj)}
IndegreeOf(adj) == [v \in 1 .. Len(adj) |-> Count(FlatSeq(adj), v - 1)]
RECURSIVE KahnLoop(_, _, _, _, _, _)
KahnLoop(adj, order, unv, indeg, frontier, depth) ==
  IF frontier = {} \/ depth > Len(adj) THEN [order |-> order, unvisited |-> unv]
  ELSE LET unv2 == [v \in 1 .. Len(adj) |-> IF v \in frontier THEN 0 ELSE unv[v]]
           ord2 == [v \in 1 .. Len(adj) |-> IF v \in frontier THEN depth ELSE order[v]]
           reached == FlatSeq([k \in 1 .. Len(adj) |-> IF k \in frontier THEN adj[k] ELSE <<>>])   \* order irrelevant
           indeg2 == [v \in 1 .. Len(adj) |-> indeg[v] - Count(reached, v - 1)]
           fr2 == {v \in 1 .. Len(adj) : Count(reached, v - 1) > 0 /\ indeg2[v] = 0 /\ unv2[v] = 1}
       IN KahnLoop(adj, ord2, unv2, indeg2, fr2, depth + 1)
KahnRef(adj) == LET n == Len(adj)  ind == IndegreeOf(adj) IN
   KahnLoop(adj, [v \in 1 .. n |-> 0], [v \in 1 .. n |-> 1], ind, {v \in 1 .. n : ind[v] = 0}, 0)

(* ---- graph routines as list-of-lists functions (judged up to order inside a segment) ---- *)
\* converse of a relation r : list of lists over 0..m-1  ->  for each j, the i's with j in r[i] (with multiplicity)
ConverseRef(segs, m) == [j \in 1 .. m |-> FlatSeq([i \in 1 .. Len(segs) |-> [k \in 1 .. Count(segs[i], j - 1) |-> i - 1]])]
OpAdjacencyRef(p) == LET conv == ConverseRef([i \in 1 .. Len(p.e) |-> p.e[i].s], Len(p.w)) IN
    [x \in 1 .. Len(p.e) |-> FlatSeq([j \in 1 .. Len(p.e[x].t) |-> conv[p.e[x].t[j] + 1]])]
NodeAdjacencyRef(p) == LET conv == ConverseRef([i \in 1 .. Len(p.e) |-> p.e[i].s], Len(p.w)) IN
    [u \in 1 .. Len(p.w) |-> FlatSeq([k \in 1 .. Len(conv[u]) |-> p.e[conv[u][k] + 1].t])]
SameSegmentsUpToOrder(A, B) == Len(A) = Len(B) /\ \A i \in 1 .. Len(A) : SameMultiset(A[i], B[i])
=============================================================================
