------------------------------ MODULE Conform ------------------------------
(***************************************************************************)
(* One conformance predicate per public operation: the relation between    *)
(* logged arguments (a), the logged observation (o) and - for stateful      *)
(* calls - the tracked pre-state, exactly as loose as the properties allow: *)
(* equality where they say equal / on the nose / unchanged, isomorphism of   *)
(* open hypergraphs where they say isomorphic, "any conforming answer"       *)
(* where the contract leaves a choice.  A panic never conforms.              *)
(***************************************************************************)
EXTENDS VarBuilder, Json

IsSome(o) == o.tag = "some"
IsNone(o) == o.tag = "none"
IsVal(o) == o.tag = "val"
IsOk(o) == o.tag = "ok"
IsErr(o) == o.tag = "err"
ValIs(o, x) == o.tag = "val" /\ o.val = x
OptIs(o, defined, x) == IF defined THEN o.tag = "some" /\ o.val = x ELSE o.tag = "none"

(* =========================================================== C07 arrays *)
Perms(n) == {p \in [1 .. n -> Range0(n)] : RangeOf(p) = Range0(n)}
ConfArr(op, a, o) ==
  CASE op = "arr.gather" \/ op = "arr.gather_s" -> ValIs(o, Gather(a.a, a.idx))
    [] op = "arr.scatter" \/ op = "arr.scatter_s" -> IsVal(o) /\ ScatterOK(a.a, a.idx, a.n, o.val)
    [] op = "arr.scatter_assign" -> IsVal(o) /\ ScatterAssignOK(a.a, a.idx, a.vals, o.val)
    [] op = "arr.scatter_assign_constant" -> ValIs(o, ScatterAssignConst(a.a, a.idx, a.c))
    [] op = "arr.scatter_sub_assign" -> ValIs(o, ScatterSubAssign(a.a, a.idx, a.rhs))
    [] op = "arr.concatenate" \/ op = "arr.concatenate_s" -> ValIs(o, a.a \o a.b)
    [] op = "arr.fill" \/ op = "arr.fill_s" -> ValIs(o, Fill(a.x, a.n))
    [] op = "arr.empty" -> ValIs(o, <<>>)
    [] op = "arr.len" -> ValIs(o, Len(a.a))
    [] op = "arr.is_empty" -> ValIs(o, Len(a.a) = 0)
    [] op = "arr.get" -> ValIs(o, a.a[a.i + 1])
    [] op = "arr.from_slice" -> ValIs(o, a.a)
    [] op = "arr.to_range" -> ValIs(o, RangeOfForm(a.r, a.n))
    [] op = "arr.get_range" \/ op = "arr.get_range_s" -> ValIs(o, Slice(a.a, a.r))
    [] op = "arr.set_range" -> ValIs(o, SetRange(a.a, a.r, a.v))
    [] op = "arr.arange" -> ValIs(o, Arange(a.lo, a.hi))
    [] op = "arr.cumulative_sum" -> ValIs(o, CumSum(a.a))
    [] op = "arr.sum" -> ValIs(o, SumSeq(a.a))
    [] op = "arr.max" -> OptIs(o, HasMax(a.a), IF HasMax(a.a) THEN MaxOf(a.a) ELSE 0)
    [] op = "arr.segmented_sum" -> ValIs(o, SegSum(a.sizes, a.x))
    [] op = "arr.repeat" -> ValIs(o, Repeat(a.counts, a.x))
    [] op = "arr.segmented_arange" -> ValIs(o, SegArange(a.sizes))
    [] op = "arr.quot_rem" -> IsVal(o) /\ o.val.q = Quot(a.a, a.d) /\ o.val.r = Rem(a.a, a.d)
    [] op = "arr.mul_constant_add" -> ValIs(o, MulConstAdd(a.a, a.c, a.x))
    [] op = "arr.add" -> ValIs(o, AddArr(a.a, a.b))
    [] op = "arr.sub" -> ValIs(o, SubArr(a.a, a.b))
    [] op = "arr.add_const" -> ValIs(o, AddConst(a.c, a.a))
    [] op = "arr.argsort" -> IsVal(o) /\ ArgsortOK(a.a, o.val)
    [] op = "arr.sort_by" -> IsVal(o) /\ \E p \in Perms(Len(a.key)) : ArgsortOK(a.key, p) /\ o.val = Gather(a.vals, p)
    [] op = "arr.bincount" -> ValIs(o, Bincount(a.a, a.size))
    [] op = "arr.sparse_bincount" -> IsVal(o) /\ SparseBincountOK(a.a, o.val.keys, o.val.counts)
    [] op = "arr.zero" -> ValIs(o, ZeroIdx(a.a))
    [] op = "arr.connected_components" -> IsVal(o) /\ ComponentsOK(a.src, a.tgt, a.n, o.val.labels, o.val.k)
    [] OTHER -> FALSE

(* =========================================================== C06 finite functions *)
ConfFF(op, a, o) ==
  CASE op = "ff.new" -> OptIs(o, FFNewAccepts(a.table, a.target), FF(a.table, a.target))
    [] op = "ff.identity" -> ValIs(o, FIdentity(a.n))
    [] op = "ff.source" -> ValIs(o, Src(a.f))
    [] op = "ff.target" -> ValIs(o, a.f.target)
    [] op = "ff.compose" \/ op = "ff.compose_shr" -> OptIs(o, FComposable(a.f, a.g), IF FComposable(a.f, a.g) THEN FCompose(a.f, a.g) ELSE 0)
    [] op = "ff.initial" -> ValIs(o, FInitial(a.a))
    [] op = "ff.to_initial" -> ValIs(o, FToInitial(a.f))
    [] op = "ff.terminal" -> ValIs(o, FTerminal(a.a))
    \* the initial object and the monoidal unit of finite functions are the empty set
    [] op = "ff.initial_object" -> ValIs(o, 0)
    [] op = "ff.unit" -> ValIs(o, 0)
    [] op = "ff.constant" -> ValIs(o, FConstant(a.a, a.x, a.b))
    [] op = "ff.inj0" -> ValIs(o, FInj0(a.a, a.b))
    [] op = "ff.inj1" -> ValIs(o, FInj1(a.a, a.b))
    [] op = "ff.inject0" -> ValIs(o, FInject0(a.f, a.b))
    [] op = "ff.inject1" -> ValIs(o, FInject1(a.f, a.a))
    [] op = "ff.coproduct" \/ op = "ff.coproduct_add" -> OptIs(o, FCoproductDefined(a.f, a.g), FCoproduct(a.f, a.g))
    [] op = "ff.tensor" \/ op = "ff.tensor_bitor" -> ValIs(o, FTensor(a.f, a.g))
    [] op = "ff.twist" -> ValIs(o, FTwist(a.a, a.b))
    [] op = "ff.transpose" -> ValIs(o, FTranspose(a.a, a.b))
    [] op = "ff.cumulative_sum" -> ValIs(o, FCumulativeSum(a.f))
    [] op = "ff.injections" -> OptIs(o, FInjectionsDefined(a.s, a.a), IF FInjectionsDefined(a.s, a.a) THEN FInjections(a.s, a.a) ELSE 0)
    [] op = "ff.is_injective" -> ValIs(o, FIsInjective(a.f))
    [] op = "ff.eq" -> ValIs(o, a.f = a.g)
    [] op = "ff.coequalizer" -> IF FParallel(a.f, a.g) THEN IsSome(o) /\ WFFF(o.val) /\ IsCoequalizer(a.f, a.g, o.val) ELSE IsNone(o)
    [] op = "ff.coequalizer_universal" ->
         IF UniversalDefined(a.q, a.f.table)
         THEN IsSome(o) /\ o.val.target = a.f.target /\ IsUniversal(a.q, a.f.table, o.val.table)
         ELSE IsNone(o)
    [] op = "ff.universal_labels" ->
         IF UniversalDefined(a.q, a.h) THEN IsSome(o) /\ IsUniversal(a.q, a.h, o.val) ELSE IsNone(o)
    [] op = "sf.coproduct" -> ValIs(o, a.a \o a.b)
    [] op = "sf.add" -> OptIs(o, TRUE, a.a \o a.b)
    [] op = "sf.singleton" -> ValIs(o, <<a.x>>)
    [] op = "sf.zero" -> ValIs(o, <<>>)
    [] op = "sf.len" -> ValIs(o, Len(a.a))
    [] op = "sfa.compose" -> OptIs(o, SFAComposeDefined(a.f, a.g), IF SFAComposeDefined(a.f, a.g) THEN SFACompose(a.f, a.g) ELSE 0)
    [] op = "sfa.source" -> ValIs(o, SFASource(a.f))
    [] op = "sfa.target" -> ValIs(o, SFATarget(a.f))
    [] op = "sfa.identity" -> ValIs(o, SFAIdentity(a.obj))
    [] op = "ff.compose_semifinite" -> OptIs(o, a.f.target = Len(a.labels), IF a.f.target = Len(a.labels) THEN Thru(a.f.table, a.labels) ELSE 0)
    [] OTHER -> FALSE

(* =========================================================== C08 segmented arrays *)
\* result is a segmented array of finite functions denoting `segs`, values into `tgt`
IsSegFF(x, segs, tgt) == WFSegFF(x) /\ SegsFF(x) = segs /\ x.values.target = tgt
IsSegSF(x, segs) == WFSegSF(x) /\ SegsSF(x) = segs
RECURSIVE IterRun(_, _, _, _)
\* replay a script of iterator calls on the iterator machine; outs are the recorded answers
IterRun(it, script, outs, i) ==
  IF i > Len(script) THEN TRUE
  ELSE LET c == script[i]  r == outs[i] IN
       CASE c = "next" -> LET e == IterNextItem(it) IN
                            /\ (IF e.tag = "some" THEN r.tag = "some" /\ r.val = e.val ELSE r.tag = "none")
                            /\ IterRun(IterAdvance(it), script, outs, i + 1)
         [] c = "len" -> r.tag = "val" /\ r.val = IterRemaining(it) /\ IterRun(it, script, outs, i + 1)
         [] c = "size_hint" -> /\ r.tag = "val" /\ r.val.lo = IterRemaining(it)
                               /\ r.val.hi.tag = "some" /\ r.val.hi.val = IterRemaining(it)
                               /\ IterRun(it, script, outs, i + 1)
ConfIC(op, a, o) ==
  CASE op = "ic.new_ff" -> OptIs(o, ICNewAccepts(a.sources, Len(a.values.table)), IC(a.sources, a.values))
    [] op = "ic.new_sf" -> OptIs(o, ICNewAccepts(a.sources, Len(a.values)), IC(a.sources, a.values))
    [] op = "ic.from_semifinite_ff" ->
         OptIs(o, ICFromSemifiniteAccepts(a.sizes, Len(a.values.table)), IC(FF(a.sizes, Len(a.values.table) + 1), a.values))
    [] op = "ic.from_semifinite_sf" ->
         OptIs(o, ICFromSemifiniteAccepts(a.sizes, Len(a.values)), IC(FF(a.sizes, Len(a.values) + 1), a.values))
    [] op = "ic.singleton_ff" -> IsVal(o) /\ IsSegFF(o.val, <<a.values.table>>, a.values.target)
    [] op = "ic.singleton_sf" -> IsVal(o) /\ IsSegSF(o.val, <<a.values>>)
    [] op = "ic.elements_ff" -> IsVal(o) /\ IsSegFF(o.val, LElements(a.values.table), a.values.target)
    [] op = "ic.elements_sf" -> IsVal(o) /\ IsSegSF(o.val, LElements(a.values))
    [] op = "ic.initial" -> IsVal(o) /\ IsSegFF(o.val, <<>>, a.target)
    [] op = "ic.len_ff" -> ValIs(o, NumSegs(a.ic))
    [] op = "ic.coproduct_ff" ->
         IF a.a.values.target = a.b.values.target
         THEN IsSome(o) /\ IsSegFF(o.val, SegsFF(a.a) \o SegsFF(a.b), a.a.values.target) ELSE IsNone(o)
    [] op = "ic.coproduct_sf" -> IsSome(o) /\ IsSegSF(o.val, SegsSF(a.a) \o SegsSF(a.b))
    [] op = "ic.tensor" -> IsVal(o) /\ IsSegFF(o.val, LTensorFF(SegsFF(a.a), SegsFF(a.b), a.a.values.target), a.a.values.target + a.b.values.target)
    [] op = "ic.map_indexes_ff" ->
         IF a.x.target = NumSegs(a.ic) THEN IsSome(o) /\ IsSegFF(o.val, LMapIndexes(SegsFF(a.ic), a.x.table), a.ic.values.target) ELSE IsNone(o)
    [] op = "ic.map_indexes_sf" ->
         IF a.x.target = NumSegs(a.ic) THEN IsSome(o) /\ IsSegSF(o.val, LMapIndexes(SegsSF(a.ic), a.x.table)) ELSE IsNone(o)
    [] op = "ic.indexed_values_ff" ->
         IF a.x.target = NumSegs(a.ic) THEN IsSome(o) /\ o.val = FF(FlatSeq(LMapIndexes(SegsFF(a.ic), a.x.table)), a.ic.values.target) ELSE IsNone(o)
    [] op = "ic.indexed_values_sf" ->
         IF a.x.target = NumSegs(a.ic) THEN IsSome(o) /\ o.val = FlatSeq(LMapIndexes(SegsSF(a.ic), a.x.table)) ELSE IsNone(o)
    [] op = "ic.map_values" ->
         IF a.ic.values.target = Src(a.x) THEN IsSome(o) /\ IsSegFF(o.val, LMapValues(SegsFF(a.ic), a.x.table), a.x.target) ELSE IsNone(o)
    [] op = "ic.map_semifinite" ->
         IF a.ic.values.target = Len(a.labels) THEN IsSome(o) /\ IsSegSF(o.val, LMapValues(SegsFF(a.ic), a.labels)) ELSE IsNone(o)
    [] op = "ic.flatmap" -> IsVal(o) /\ IsSegFF(o.val, LFlatmap(SegsFF(a.a), SegsFF(a.b)), a.b.values.target)
    [] op = "ic.flatmap_sources_ff" -> IsVal(o) /\ IsSegFF(o.val, LFlatmapSources(Sizes(a.a), SegsFF(a.b)), a.b.values.target)
    [] op = "ic.flatmap_sources_sf" -> IsVal(o) /\ IsSegSF(o.val, LFlatmapSources(Sizes(a.a), SegsSF(a.b)))
    [] op = "ic.iter_ff" -> IsVal(o) /\ Len(o.val) = Len(a.script) /\
         IterRun(IterInit([k \in 1 .. NumSegs(a.ic) |-> FF(SegsFF(a.ic)[k], a.ic.values.target)]), a.script, o.val, 1)
    [] op = "ic.iter_sf" -> IsVal(o) /\ Len(o.val) = Len(a.script) /\ IterRun(IterInit(SegsSF(a.ic)), a.script, o.val, 1)
    [] op = "ic.iter_slices" -> ValIs(o, SegsSF(a.ic))
    [] op = "ops.new" -> OptIs(o, OpsNewAccepts(a.x, a.a, a.b), [x |-> a.x, a |-> a.a, b |-> a.b])
    [] op = "ops.singleton" -> IsVal(o) /\ o.val.x = <<a.x>> /\ IsSegSF(o.val.a, <<a.a>>) /\ IsSegSF(o.val.b, <<a.b>>)
    [] op = "ops.len" -> ValIs(o, Len(a.ops.x))
    [] op = "ops.iter" -> ValIs(o, OpsTriples(a.ops))
    [] OTHER -> FALSE

(* =========================================================== C01-C05, C17 strict diagrams *)
\* a returned strict diagram: deep well-formed and isomorphic to the reference
IsDiagram(x, ref) == WFStrict(x) /\ Iso(Abs(x), ref)
OptDiagram(o, defined, ref) == IF defined THEN IsSome(o) /\ IsDiagram(o.val, ref) ELSE IsNone(o)
HyperErrFails(h, v) ==
  CASE v = "SourcesCount" -> NumSegs(h.s) # Len(h.x)
    [] v = "TargetsCount" -> NumSegs(h.t) # Len(h.x)
    [] v = "SourcesSet" -> h.s.values.target # Len(h.w)
    [] v = "TargetsSet" -> h.t.values.target # Len(h.w)
    [] OTHER -> FALSE
OpenErrFails(f, v) ==
  CASE v = "CospanSourceType" -> f.s.target # Len(f.h.w)
    [] v = "CospanTargetType" -> f.t.target # Len(f.h.w)
    [] OTHER -> HyperErrFails(f.h, v)
OpsRef(ops) == TensorAll([i \in 1 .. Len(ops.x) |-> SingletonRef(ops.x[i], SegsSF(ops.a)[i], SegsSF(ops.b)[i])])
TensorH(g, h) == [w |-> g.w \o h.w, e |-> g.e \o [i \in 1 .. Len(h.e) |-> ShiftE(h.e[i], Len(g.w))]]
\* C01: Some iff types agree; deep well-formed; isomorphic to the reference gluing
ConfCompose(a, o) == LET f == Abs(a.f)  g == Abs(a.g) IN OptDiagram(o, Composable(f, g), ComposeRef(f, g))
\* both sides of a law: defined together, and isomorphic (each also to the reference when given)
LawIso(l, r, defined) == IF defined THEN IsSome(l) /\ IsSome(r) /\ WFStrict(l.val) /\ WFStrict(r.val) /\ Iso(Abs(l.val), Abs(r.val))
                         ELSE IsNone(l) /\ IsNone(r)
ConfStrict(op, a, o) ==
  CASE op = "hyper.new" ->
         LET h == HG(a.s, a.t, a.w, a.x) IN
         IF HyperNewAccepts(h) THEN IsOk(o) /\ o.val = h ELSE IsErr(o) /\ HyperErrFails(h, o.variant)
    [] op = "strict.new" ->
         LET f == SOH(a.s, a.t, a.h) IN
         IF OpenNewAccepts(f) THEN IsOk(o) /\ o.val = f ELSE IsErr(o) /\ OpenErrFails(f, o.variant)
    [] op = "hyper.empty" -> IsVal(o) /\ WFHyper(o.val) /\ AbsH(o.val) = [w |-> <<>>, e |-> <<>>]
    [] op = "hyper.discrete" -> IsVal(o) /\ WFHyper(o.val) /\ AbsH(o.val) = [w |-> a.w, e |-> <<>>]
    [] op = "hyper.is_discrete" -> ValIs(o, Len(a.h.x) = 0)
    [] op = "hyper.coproduct" \/ op = "hyper.coproduct_add" -> ValIs(o, PackH(TensorH(AbsH(a.g), AbsH(a.h))))
    [] op = "hyper.tensor_operations" ->
         LET r == OpsRef(a.ops) IN
         IsVal(o) /\ WFHyper(o.val) /\ Iso(OH(AbsH(o.val).w, AbsH(o.val).e, <<>>, <<>>), OH(r.w, r.e, <<>>, <<>>))
    [] op = "hyper.coequalize_vertices" ->
         LET p == AbsH(a.h) IN
         IF Src(a.q) = Len(a.h.w) /\ ConstOnFibres(a.q, a.h.w)
         THEN /\ IsSome(o) /\ WFHyper(o.val) /\ Len(o.val.w) = a.q.target /\ IsUniversal(a.q, a.h.w, o.val.w)
              /\ AbsH(o.val).e = [i \in 1 .. Len(p.e) |-> MapE(p.e[i], a.q.table)]
         ELSE IsNone(o)
    [] op = "hyper.in_degree" -> ValIs(o, InDegree(AbsH(a.h), a.node))
    [] op = "hyper.out_degree" -> ValIs(o, OutDegree(AbsH(a.h), a.node))
    [] op = "hyper.is_acyclic" -> ValIs(o, NodeAcyclic(AbsH(a.h)))
    [] op = "strict.is_acyclic" -> ValIs(o, NodeAcyclic(Abs(a.f)))
    [] op = "strict.is_monogamous" -> ValIs(o, MonogamousDef(Abs(a.f)))
    [] op = "strict.compose" \/ op = "strict.compose_shr" -> ConfCompose(a, o)
    \* C02: equality, field for field, with the canonical packing of the juxtaposition
    [] op = "strict.tensor" \/ op = "strict.tensor_bitor" -> ValIs(o, Pack(TensorRef(Abs(a.f), Abs(a.g))))
    [] op = "strict.identity" -> IsVal(o) /\ IsDiagram(o.val, IdentityRef(a.w))
    [] op = "strict.twist" -> IsVal(o) /\ IsDiagram(o.val, TwistRef(a.a, a.b))
                              /\ StrictSrcType(o.val) = a.a \o a.b /\ StrictTgtType(o.val) = a.b \o a.a
    [] op = "strict.dagger" -> ValIs(o, SOH(a.f.t, a.f.s, a.f.h))
    [] op = "strict.spider" -> OptDiagram(o, a.s.target = Len(a.w) /\ a.t.target = Len(a.w), SpiderRef(a.s.table, a.t.table, a.w))
    [] op = "strict.half_spider" -> OptDiagram(o, a.s.target = Len(a.w), SpiderRef(a.s.table, Arange(0, a.s.target), a.w))
    [] op = "strict.singleton" -> IsVal(o) /\ IsDiagram(o.val, SingletonRef(a.x, a.a, a.b))
                                  /\ StrictSrcType(o.val) = a.a /\ StrictTgtType(o.val) = a.b
    [] op = "strict.tensor_operations" ->
         LET r == OpsRef(a.ops) IN
         IsVal(o) /\ IsDiagram(o.val, r) /\ StrictSrcType(o.val) = SrcType(r) /\ StrictTgtType(o.val) = TgtType(r)
    [] op = "strict.source" -> ValIs(o, SrcType(Abs(a.f)))
    [] op = "strict.target" -> ValIs(o, TgtType(Abs(a.f)))
    [] op = "strict.unit" -> ValIs(o, <<>>)
    (* ---- laws (C03, C04): both sides computed by the library ---- *)
    [] op = "law.assoc" ->
         LET f == Abs(a.f)  g == Abs(a.g)  h == Abs(a.h)  def == Composable(f, g) /\ Composable(g, h) IN
         IsVal(o) /\ LawIso(o.val.lhs, o.val.rhs, def) /\ (def => Iso(Abs(o.val.lhs.val), ComposeRef(ComposeRef(f, g), h)))
    [] op = "law.unit" ->
         LET f == Abs(a.f) IN IsVal(o) /\ LawIso(o.val.lhs, o.val.rhs, TRUE) /\ Iso(Abs(o.val.lhs.val), f) /\ Iso(Abs(o.val.rhs.val), f)
    [] op = "law.interchange" ->
         LET f == Abs(a.f)  g == Abs(a.g)  h == Abs(a.h)  k == Abs(a.k)  def == Composable(f, g) /\ Composable(h, k) IN
         \* the law speaks about the case where both composites exist; otherwise only the left side is determined
         IsVal(o) /\ (IF def THEN LawIso(o.val.lhs, o.val.rhs, TRUE) /\ Iso(Abs(o.val.lhs.val), TensorRef(ComposeRef(f, g), ComposeRef(h, k)))
                      ELSE IsNone(o.val.lhs))
    [] op = "law.twist_natural" ->
         LET f == Abs(a.f)  g == Abs(a.g) IN
         IsVal(o) /\ LawIso(o.val.lhs, o.val.rhs, TRUE)
           /\ Iso(Abs(o.val.lhs.val), ComposeRef(TensorRef(f, g), TwistRef(TgtType(f), TgtType(g))))
    [] op = "law.twist_inverse" ->
         IsVal(o) /\ LawIso(o.val.lhs, o.val.rhs, TRUE) /\ Iso(Abs(o.val.lhs.val), IdentityRef(a.a \o a.b))
    [] op = "law.hexagon" ->
         IsVal(o) /\ LawIso(o.val.lhs, o.val.rhs, TRUE) /\ LawIso(o.val.lhs2, o.val.rhs2, TRUE)
           /\ Iso(Abs(o.val.lhs.val), TwistRef(a.a, a.b \o a.c)) /\ Iso(Abs(o.val.lhs2.val), TwistRef(a.a \o a.b, a.c))
    [] op = "law.tensor_assoc" -> IsVal(o) /\ o.val.lhs = o.val.rhs /\ o.val.lhs = Pack(TensorRef(TensorRef(Abs(a.f), Abs(a.g)), Abs(a.h)))
    [] op = "law.tensor_unit" -> IsVal(o) /\ o.val.lhs = a.f /\ o.val.rhs = a.f /\ o.val.unit = Pack(EmptyOH)
    [] op = "law.dagger_compose" ->
         LET f == Abs(a.f)  g == Abs(a.g)  def == Composable(f, g) IN
         IsVal(o) /\ LawIso(o.val.lhs, o.val.rhs, def) /\ (def => Iso(Abs(o.val.lhs.val), DaggerRef(ComposeRef(f, g))))
    [] op = "law.dagger_tensor" -> IsVal(o) /\ o.val.lhs = o.val.rhs /\ o.val.inv = a.f
                                   /\ o.val.lhs = Pack(DaggerRef(TensorRef(Abs(a.f), Abs(a.g))))
    [] op = "law.spider_fusion" ->
         LET d1 == a.s1.target = Len(a.w1) /\ a.t1.target = Len(a.w1)
             d2 == a.s2.target = Len(a.w2) /\ a.t2.target = Len(a.w2)
             l == SpiderRef(a.s1.table, a.t1.table, a.w1)
             r == SpiderRef(a.s2.table, a.t2.table, a.w2) IN
         /\ IsVal(o) /\ OptDiagram(o.val.l, d1, l) /\ OptDiagram(o.val.r, d2, r)
         /\ IF d1 /\ d2 /\ Composable(l, r)
            THEN /\ IsSome(o.val.c) /\ WFStrict(o.val.c.val) /\ Len(o.val.c.val.h.x) = 0       \* again discrete
                 /\ Iso(Abs(o.val.c.val), ComposeRef(l, r))                                    \* the fused spider
            ELSE IsNone(o.val.c)
    [] OTHER -> FALSE

(* =========================================================== C15, C16, C18 *)
ConfGraph(op, a, o) ==
  CASE op = "strict.layer" ->
         LET f == Abs(a.f) IN
         /\ IsVal(o) /\ o.val.order.target = NE(f) /\ WFFF(o.val.order)
         /\ ValidLayering(NE(f), Dep(f), o.val.order.table, o.val.unvisited)
    [] op = "strict.layered_operations" ->
         LET f == Abs(a.f) IN IsVal(o) /\ ValidGrouping(NE(f), Dep(f), o.val.layers, o.val.unvisited)
    [] op = "hook.converse" -> IsVal(o) /\ WFSegFF(o.val) /\ o.val.values.target = NumSegs(a.r)
                               /\ SameSegmentsUpToOrder(SegsFF(o.val), ConverseRef(SegsFF(a.r), a.r.values.target))
    [] op = "hook.operation_adjacency" -> IsVal(o) /\ WFSegFF(o.val) /\ o.val.values.target = Len(a.h.x)
                               /\ SameSegmentsUpToOrder(SegsFF(o.val), OpAdjacencyRef(AbsH(a.h)))
    [] op = "hook.node_adjacency" -> IsVal(o) /\ WFSegFF(o.val) /\ o.val.values.target = Len(a.h.w)
                               /\ SameSegmentsUpToOrder(SegsFF(o.val), NodeAdjacencyRef(AbsH(a.h)))
    [] op = "hook.indegree" -> IsVal(o) /\ WFFF(o.val) /\ o.val.table = IndegreeOf(SegsFF(a.adj))
    [] op = "hook.kahn" -> LET adj == SegsFF(a.adj) IN
                           IsVal(o) /\ ValidLayering(Len(adj), AdjToDep(adj), o.val.order, o.val.unvisited)
    [] op = "strict.eval" ->
         LET f == Abs(a.f) IN
         IF ~DepAcyclic(f) THEN IsNone(o)
         ELSE /\ IsSome(o)
              /\ (SingleWriter(f) => /\ o.val = EvalRef(f, a.inputs)
                                     /\ SameMultiset(FlatSeq(o.batches), EdgeCalls(f, a.inputs)))   \* every hyperedge once, on the reference inputs
    [] op = "arrow.new" ->
         LET g == AbsH(a.source)  h == AbsH(a.target) IN
         IF IsMorphism(g, h, a.w, a.x) THEN IsOk(o) ELSE IsErr(o) /\ VariantFails(g, h, a.w, a.x, o.variant)
    [] op = "arrow.is_monomorphism" -> ValIs(o, IsMono(a.w, a.x))
    [] op = "arrow.is_convex_subgraph" -> ValIs(o, ConvexRef(AbsH(a.target), a.w, a.x))
    [] OTHER -> FALSE

(* =========================================================== C12-C14 functors and optics *)
FAbs(F) == [obj |-> F.obj, ops |-> [i \in 1 .. Len(F.ops) |-> [l |-> F.ops[i].l, a |-> F.ops[i].a, b |-> F.ops[i].b, img |-> Abs(F.ops[i].img)]]]
IsoPair(x, y) == WFStrict(x) /\ WFStrict(y) /\ Iso(Abs(x), Abs(y))
ConfFunctor(op, a, o) ==
  CASE op = "functor.map_arrow" ->
         LET F == FAbs(a.F)  f == Abs(a.f)  r == Substitute(F, f) IN
         IsVal(o) /\ IsDiagram(o.val, r) /\ StrictSrcType(o.val) = FType(F, SrcType(f)) /\ StrictTgtType(o.val) = FType(F, TgtType(f))
    [] op = "functor.map_object" -> IsVal(o) /\ IsSegSF(o.val, FObjSeq(FAbs(a.F), a.w))
    [] op = "functor.identity" -> IsVal(o) /\ IsDiagram(o.val, Abs(a.f))
    [] op = "functor.laws" ->
         LET F == FAbs(a.F)  f == Abs(a.f)  g == Abs(a.g)  v == o.val IN
         /\ IsVal(o)
         /\ IsDiagram(v.Ff, Substitute(F, f)) /\ IsDiagram(v.Fg, Substitute(F, g))
         /\ (IF Composable(f, g) THEN IsSome(v.F_fg) /\ IsSome(v.Ff_Fg) /\ IsoPair(v.F_fg.val, v.Ff_Fg.val) ELSE IsNone(v.F_fg))
         /\ IsoPair(v.F_tensor, v.tensor_F)
         /\ IsoPair(v.F_dagger, v.dagger_F)
         /\ IsDiagram(v.F_id, IdentityRef(FType(F, SrcType(f))))
         /\ IsDiagram(v.F_twist, TwistRef(FType(F, SrcType(f)), FType(F, SrcType(g))))
    [] op = "laxf.dyn_map_arrow" ->
         LET F == FAbs(a.F)  f == Strictify(a.f) IN
         IsVal(o) /\ WFLax(o.val) /\ LaxIsStrict(o.val) /\ Iso(LaxToPlain(o.val), Substitute(F, f))
    [] op = "laxf.identity" -> IsVal(o) /\ WFLax(o.val) /\ LaxConsistent(o.val) /\ Iso(Strictify(o.val), Strictify(a.f))
    [] op = "laxf.try_define_map_arrow" ->
         IF ~LaxIsStrict(a.f) THEN IsNone(o)
         ELSE LET F == FAbs(a.F) IN
              IsSome(o) /\ WFLax(o.val) /\ LaxConsistent(o.val) /\ Iso(Strictify(o.val), Substitute(F, LaxToPlain(a.f)))
    [] op = "laxf.map_arrow_witness" ->
         IF ~LaxIsStrict(a.f) THEN IsNone(o)
         ELSE LET F == FAbs(a.F)  out == o.val.out  f == LaxToPlain(a.f) IN
              /\ IsSome(o) /\ WFLax(out) /\ LaxConsistent(out) /\ Iso(Strictify(out), Substitute(F, f))
              /\ WFSegFF(o.val.witness) /\ o.val.witness.values.target = Len(out.nodes)
              /\ WitnessOK(F, f, out, SegsFF(o.val.witness), CanonQuotMap(out).table)
    [] OTHER -> FALSE

(* ---- C14 optics ---- *)
TAbs(T) == [fwd |-> FAbs(T.fwd), rev |-> FAbs(T.rev), residual |-> T.residual]
OpticTypeOK(T, f, x) == StrictSrcType(x) = ILeave(T, SrcType(f)) /\ StrictTgtType(x) = ILeave(T, TgtType(f))
AdaptTypeOK(T, f, x) == /\ StrictSrcType(x) = FType(T.fwd, SrcType(f)) \o FType(T.rev, TgtType(f))
                        /\ StrictTgtType(x) = FType(T.fwd, TgtType(f)) \o FType(T.rev, SrcType(f))
ConfOptic(op, a, o) ==
  CASE op = "optic.map_arrow" ->
         LET T == TAbs(a.optic)  f == Abs(a.f) IN
         IsVal(o) /\ IsDiagram(o.val, OpticArrow(T, f)) /\ OpticTypeOK(T, f, o.val)
    [] op = "optic.map_adapted" ->
         LET T == TAbs(a.optic)  f == Abs(a.f)  c == OpticArrow(T, f) IN
         /\ IsVal(o) /\ IsDiagram(o.val.optic, c) /\ OpticTypeOK(T, f, o.val.optic)
         /\ IsDiagram(o.val.adapted, AdaptRef(T, c, SrcType(f), TgtType(f))) /\ AdaptTypeOK(T, f, o.val.adapted)
    [] op = "optic.laws" ->
         LET T == TAbs(a.optic)  f == Abs(a.f)  g == Abs(a.g)  v == o.val IN
         /\ IsVal(o) /\ IsDiagram(v.Of, OpticArrow(T, f)) /\ IsDiagram(v.Og, OpticArrow(T, g))
         /\ (IF Composable(f, g) THEN IsSome(v.O_fg) /\ IsSome(v.Of_Og) /\ IsoPair(v.O_fg.val, v.Of_Og.val) ELSE IsNone(v.O_fg))
         /\ IsoPair(v.O_tensor, v.tensor_O)
    \* derivative clause: adapted optic of a polynomial circuit evaluates to (f(x), J^T dy), and is monogamous
    [] op = "optic.eval_adapted" ->
         LET T == TAbs(a.optic)  f == Abs(a.f)  n == Len(f.s)  m == Len(f.t) IN
         /\ IsVal(o) /\ AdaptTypeOK(T, f, o.val.adapted)
         /\ IsDiagram(o.val.adapted, AdaptRef(T, OpticArrow(T, f), SrcType(f), TgtType(f)))
         /\ o.val.mono = TRUE
         /\ Len(o.val.outs) = Len(a.inputs)
         /\ \A i \in 1 .. Len(a.inputs) :
               LET x == SubSeq(a.inputs[i], 1, n)  dy == SubSeq(a.inputs[i], n + 1, n + m) IN
               o.val.outs[i].tag = "some" /\ o.val.outs[i].val = EvalRef(f, x) \o RevDerivRef(f, x, dy)
    [] op = "laxf.optic_map_arrow" ->
         LET T == TAbs(a.optic)  f == Strictify(a.f) IN
         IsVal(o) /\ WFLax(o.val) /\ LaxIsStrict(o.val) /\ Iso(LaxToPlain(o.val), OpticArrow(T, f))
           /\ LaxSrcType(o.val) = ILeave(T, SrcType(f)) /\ LaxTgtType(o.val) = ILeave(T, TgtType(f))
    [] op = "laxf.optic_map_adapted" ->
         LET T == TAbs(a.optic)  f == Strictify(a.f) IN
         IsVal(o) /\ WFLax(o.val) /\ LaxIsStrict(o.val)
           /\ Iso(LaxToPlain(o.val), AdaptRef(T, OpticArrow(T, f), SrcType(f), TgtType(f)))
           /\ LaxSrcType(o.val) = FType(T.fwd, SrcType(f)) \o FType(T.rev, TgtType(f))
           /\ LaxTgtType(o.val) = FType(T.fwd, TgtType(f)) \o FType(T.rev, SrcType(f))
    [] OTHER -> FALSE

(* ---- C19 Var interface and forgetting ---- *)
\* every non-variable hyperedge is an operation of the evaluation signature with the right arity
InSignature(f) == \A k \in 1 .. NE(f) : f.e[k].l = VarLabel \/ (f.e[k].l \in SigLabels /\ Len(f.e[k].s) = Arity(f.e[k].l) /\ Len(f.e[k].t) = Coarity(f.e[k].l))
ConfVar(op, a, o) ==
  CASE op = "var.script" ->
         \* C19 speaks about the term's structure (one hyperedge per operator, every use reads the value
         \* produced for it, interfaces in order), not about node numbering: compared up to isomorphism
         LET t == VBuild(a.script, a.srcs, a.tgts)
             same(x) == WFLax(x) /\ LaxIsStrict(x) /\ Iso(LaxToPlain(x), LaxToPlain(t)) IN
         IF Leaks(a.script) THEN IsErr(o) /\ same(o.val)          \* the shared state is handed back
         ELSE IsOk(o) /\ same(o.val)
    [] op = "var.script_eval" ->
         \* end to end: the built expression, forgotten and evaluated, computes the expression
         LET t == VBuild(a.script, a.srcs, a.tgts)  f == Strictify(t)  r == ForgetRef(f, FALSE) IN
         /\ IsVal(o) /\ o.val.built.tag = "ok"
         /\ WFLax(o.val.built.val) /\ Iso(LaxToPlain(o.val.built.val), LaxToPlain(t))
         /\ WFLax(o.val.forgot) /\ LaxConsistent(o.val.forgot) /\ Iso(Strictify(o.val.forgot), r)
         /\ (DepAcyclic(r) /\ SingleWriter(r) /\ CopyLike(f) /\ NodeAcyclic(f) /\ InSignature(f) =>
               \A i \in 1 .. Len(a.inputs) : o.val.outs[i].tag = "some" /\ o.val.outs[i].val = EvalVarRef(f, a.inputs[i]))
    [] op = "var.forget" \/ op = "var.forget_monogamous" ->
         LET f == Strictify(a.f)  r == ForgetRef(f, op = "var.forget_monogamous") IN
         /\ IsVal(o) /\ WFLax(o.val) /\ LaxConsistent(o.val) /\ Iso(Strictify(o.val), r)
         /\ LaxSrcType(o.val) = SrcType(f) /\ LaxTgtType(o.val) = TgtType(f)          \* the type is preserved
    [] op = "var.forget_eval" ->
         LET f == Strictify(a.f)  r == ForgetRef(f, FALSE) IN
         /\ IsVal(o) /\ WFLax(o.val.forgot) /\ LaxConsistent(o.val.forgot) /\ Iso(Strictify(o.val.forgot), r)
         /\ (DepAcyclic(r) /\ SingleWriter(r) /\ CopyLike(f) /\ NodeAcyclic(f) /\ InSignature(f) =>
               \A i \in 1 .. Len(a.inputs) : o.val.outs[i].tag = "some" /\ o.val.outs[i].val = EvalVarRef(f, a.inputs[i]))
    [] OTHER -> FALSE

(* =========================================================== C09-C11, C02, C04: lax *)
\* pre-state of a stateful call: logged with the case (GEN) or the tracked state (recorded histories)
HasPre(a) == "pre" \in DOMAIN a
PreOf(st, a) == IF HasPre(a) THEN a.pre ELSE st
Stepped(o, r) == o.tag = "val" /\ o.val = r.ret /\ o.post = r.st
\* lax result compared after strictification (the two sides of C10)
LaxIso(x, ref) == WFLax(x) /\ LaxConsistent(x) /\ Iso(Strictify(x), ref)
SerdeOK(pre, j, back) ==
  /\ back = pre
  /\ DOMAIN j = {"sources", "targets", "hypergraph"} /\ DOMAIN j.hypergraph = {"nodes", "edges", "adjacency", "quotient"}
  /\ j.sources = pre.sources /\ j.targets = pre.targets
  /\ j.hypergraph.nodes = pre.nodes /\ j.hypergraph.edges = pre.edges
  /\ Len(j.hypergraph.adjacency) = Len(pre.adj)
  /\ \A i \in 1 .. Len(pre.adj) : /\ DOMAIN j.hypergraph.adjacency[i] = {"sources", "targets"}
                                  /\ j.hypergraph.adjacency[i].sources = pre.adj[i].s
                                  /\ j.hypergraph.adjacency[i].targets = pre.adj[i].t
  /\ j.hypergraph.quotient = <<pre.ql, pre.qr>>
ConfLax(op, st, a, o) ==
  LET pre == PreOf(st, a) IN
  CASE op = "lax.reset" -> o.post = LaxEmpty                                  \* start of a recorded history
    [] op = "lax.set_interfaces" -> IsVal(o) /\ o.post = [pre EXCEPT !.sources = a.s, !.targets = a.t]   \* plain field assignment
    [] op = "lax.new_node" -> Stepped(o, LNewNode(pre, a.label))
    [] op = "lax.new_edge" -> Stepped(o, LNewEdge(pre, a.x, a.s, a.t))
    [] op = "lax.new_operation" -> Stepped(o, LNewOperation(pre, a.x, a.a, a.b))
    [] op = "lax.add_edge_source" -> Stepped(o, LAddEdgeSource(pre, a.e, a.label))
    [] op = "lax.add_edge_target" -> Stepped(o, LAddEdgeTarget(pre, a.e, a.label))
    [] op = "lax.unify" -> IsVal(o) /\ o.post = LUnify(pre, a.v, a.w)
    [] op = "lax.delete_nodes" ->
         IF DelAccepts(a.ids, LN(pre)) THEN IsVal(o) /\ o.post = LDeleteNodesOpen(pre, a.ids).st ELSE o.tag = "panic"
    [] op = "lax.h.delete_nodes" \/ op = "lax.h.delete_nodes_witness" ->
         IF DelAccepts(a.ids, LN(pre))
         THEN LET r == LDeleteNodesOpen(pre, a.ids) IN
              /\ IsVal(o) /\ o.post = [r.st EXCEPT !.sources = pre.sources, !.targets = pre.targets]  \* interfaces are not part of the hypergraph
              /\ (op = "lax.h.delete_nodes_witness" => o.val = r.ret)
         ELSE o.tag = "panic"
    [] op = "lax.delete_edges" \/ op = "lax.h.delete_edge" ->
         IF DelAccepts(a.ids, LE(pre)) THEN IsVal(o) /\ o.post = LDeleteEdges(pre, a.ids) ELSE o.tag = "panic"
    [] op = "lax.map_nodes" -> IsVal(o) /\ o.post = LMapNodes(pre, a.tbl)
    [] op = "lax.map_edges" -> IsVal(o) /\ o.post = LMapEdges(pre, a.tbl)
    [] op = "lax.with_nodes" -> OptIs(o, Len(a.nodes) = LN(pre), [pre EXCEPT !.nodes = a.nodes])
    [] op = "lax.with_edges" -> OptIs(o, Len(a.edges) = LE(pre), [pre EXCEPT !.edges = a.edges])
    [] op = "lax.quotient" \/ op = "lax.quotient_witness" -> QuotientRel(pre, o, o.post)
    [] op = "lax.h.quotient" ->
         \* the hypergraph's own quotient does not know the interfaces
         LET blind == [pre EXCEPT !.sources = <<>>, !.targets = <<>>] IN
         QuotientRel(blind, o, [o.post EXCEPT !.sources = <<>>, !.targets = <<>>])
           /\ o.post.sources = pre.sources /\ o.post.targets = pre.targets
    [] op = "lax.h.coequalizer" -> IsVal(o) /\ WFFF(o.val) /\ IsQuotientMap(pre, o.val)
    [] op = "lax.is_strict" -> ValIs(o, LaxIsStrict(pre))
    [] op = "lax.from_strict" -> ValIs(o, PlainToLax(Abs(a.f)))
    [] op = "lax.to_strict" \/ op = "lax.to_open_hypergraph" ->
         IF LaxIsStrict(pre) THEN ValIs(o, Pack(LaxToPlain(pre)))
         ELSE IsVal(o) /\ IsDiagram(o.val, Strictify(pre))
    [] op = "lax.h.to_hypergraph" -> ValIs(o, PackH(LaxToPlain(pre)))
    [] op = "lax.roundtrip_strict" -> ValIs(o, a.f)
    [] op = "lax.roundtrip_lax" -> IF LaxIsStrict(pre) THEN ValIs(o, pre) ELSE IsVal(o) /\ LaxIso(o.val, Strictify(pre))
    [] op = "lax.empty" -> ValIs(o, LaxEmpty)
    [] op = "lax.unit" -> ValIs(o, <<>>)
    \* the discrete lax hypergraph on a list of labels (shown with empty interfaces)
    [] op = "lax.h.discrete" -> ValIs(o, [LaxEmpty EXCEPT !.nodes = a.w])
    [] op = "lax.tensor" \/ op = "lax.tensor_bitor" -> ValIs(o, LTensor(a.f, a.g))
    [] op = "lax.tensor3" -> /\ IsVal(o) /\ o.val.lhs = o.val.rhs /\ o.val.lhs = LTensor(LTensor(a.f, a.g), a.h)
                             /\ o.val.ul = a.f /\ o.val.ur = a.f
    \* C10: defined iff arities match (unchecked) / types match (checked); strict(f;g) iso strict(f);strict(g)
    [] op = "lax.lax_compose" ->
         IF LLaxComposeDefined(a.f, a.g)
         THEN /\ IsSome(o) /\ WFLax(o.val)
              /\ (LaxConsistent(a.f) /\ LaxConsistent(a.g) /\ Composable(Strictify(a.f), Strictify(a.g))
                    => LaxIso(o.val, ComposeRef(Strictify(a.f), Strictify(a.g))))
         ELSE IsNone(o)
    [] op = "lax.compose" \/ op = "lax.compose_shr" ->
         IF LComposeDefined(a.f, a.g)
         THEN /\ IsSome(o) /\ WFLax(o.val)
              /\ (LaxConsistent(a.f) /\ LaxConsistent(a.g) => LaxIso(o.val, ComposeRef(Strictify(a.f), Strictify(a.g))))
         ELSE IsNone(o)
    [] op = "lax.identity" -> IsVal(o) /\ LaxIso(o.val, IdentityRef(a.w))
    [] op = "lax.twist" -> IsVal(o) /\ LaxIso(o.val, TwistRef(a.a, a.b))
    [] op = "lax.spider" -> IF LSpiderDefined(a.s, a.t, a.w) THEN IsSome(o) /\ LaxIso(o.val, SpiderRef(a.s.table, a.t.table, a.w)) ELSE IsNone(o)
    [] op = "lax.half_spider" -> IF a.s.target = Len(a.w) THEN IsSome(o) /\ LaxIso(o.val, SpiderRef(a.s.table, Arange(0, a.s.target), a.w)) ELSE IsNone(o)
    [] op = "lax.dagger" -> ValIs(o, LDagger(a.f))
    [] op = "lax.singleton" -> IsVal(o) /\ LaxIso(o.val, SingletonRef(a.x, a.a, a.b))
    [] op = "lax.source" -> ValIs(o, LaxSrcType(a.f))
    [] op = "lax.target" -> ValIs(o, LaxTgtType(a.f))
    [] op = "lax.tensor_assign" -> IsVal(o) /\ o.post = LTensor(pre, a.g)
    [] op = "lax.append" -> Stepped(o, LAppend(pre, a.g))
    [] op = "lax.h.coproduct_assign" -> IsVal(o) /\ o.post = [LHyperCoproduct(pre, a.g) EXCEPT !.sources = pre.sources, !.targets = pre.targets]
    [] op = "lax.serde_roundtrip" -> IsVal(o) /\ SerdeOK(pre, o.val.json, o.val.back)
    [] OTHER -> FALSE

(* =========================================================== dispatch *)
ArrOps == {"arr.add", "arr.add_const", "arr.arange", "arr.argsort", "arr.bincount", "arr.concatenate", "arr.concatenate_s", "arr.connected_components", "arr.cumulative_sum", "arr.empty", "arr.fill", "arr.fill_s", "arr.from_slice", "arr.gather", "arr.gather_s", "arr.get", "arr.get_range", "arr.get_range_s", "arr.is_empty", "arr.len", "arr.max", "arr.mul_constant_add", "arr.quot_rem", "arr.repeat", "arr.scatter", "arr.scatter_assign", "arr.scatter_assign_constant", "arr.scatter_s", "arr.scatter_sub_assign", "arr.segmented_arange", "arr.segmented_sum", "arr.set_range", "arr.sort_by", "arr.sparse_bincount", "arr.sub", "arr.sum", "arr.to_range", "arr.zero"}
FFOps == {"sf.coproduct", "sf.add", "sf.singleton", "sf.zero", "sf.len", "sfa.compose", "sfa.source", "sfa.target", "sfa.identity", "ff.coequalizer", "ff.coequalizer_universal", "ff.compose", "ff.compose_semifinite", "ff.compose_shr", "ff.constant", "ff.coproduct", "ff.coproduct_add", "ff.cumulative_sum", "ff.eq", "ff.identity", "ff.initial", "ff.initial_object", "ff.unit", "ff.inj0", "ff.inj1", "ff.inject0", "ff.inject1", "ff.injections", "ff.is_injective", "ff.new", "ff.source", "ff.target", "ff.tensor", "ff.tensor_bitor", "ff.terminal", "ff.to_initial", "ff.transpose", "ff.twist", "ff.universal_labels"}
ICOps == {"ic.coproduct_ff", "ic.coproduct_sf", "ic.elements_ff", "ic.elements_sf", "ic.flatmap", "ic.flatmap_sources_ff", "ic.flatmap_sources_sf", "ic.from_semifinite_ff", "ic.from_semifinite_sf", "ic.indexed_values_ff", "ic.indexed_values_sf", "ic.initial", "ic.iter_ff", "ic.iter_sf", "ic.iter_slices", "ic.len_ff", "ic.map_indexes_ff", "ic.map_indexes_sf", "ic.map_semifinite", "ic.map_values", "ic.new_ff", "ic.new_sf", "ic.singleton_ff", "ic.singleton_sf", "ic.tensor", "ops.iter", "ops.len", "ops.new", "ops.singleton"}
StrictOps == {"hyper.coequalize_vertices", "hyper.coproduct", "hyper.coproduct_add", "hyper.discrete", "hyper.empty", "hyper.in_degree", "hyper.is_acyclic", "hyper.is_discrete", "hyper.new", "hyper.out_degree", "hyper.tensor_operations", "law.assoc", "law.dagger_compose", "law.dagger_tensor", "law.hexagon", "law.interchange", "law.spider_fusion", "law.tensor_assoc", "law.tensor_unit", "law.twist_inverse", "law.twist_natural", "law.unit", "strict.compose", "strict.compose_shr", "strict.dagger", "strict.half_spider", "strict.identity", "strict.is_acyclic", "strict.is_monogamous", "strict.new", "strict.singleton", "strict.source", "strict.spider", "strict.target", "strict.tensor", "strict.tensor_bitor", "strict.tensor_operations", "strict.twist", "strict.unit"}
GraphOps == {"arrow.is_convex_subgraph", "arrow.is_monomorphism", "arrow.new", "hook.converse", "hook.indegree", "hook.kahn", "hook.node_adjacency", "hook.operation_adjacency", "strict.eval", "strict.layer", "strict.layered_operations"}
FunctorOps == {"functor.identity", "functor.laws", "functor.map_arrow", "functor.map_object", "laxf.dyn_map_arrow", "laxf.identity", "laxf.map_arrow_witness", "laxf.try_define_map_arrow"}
OpticOps == {"laxf.optic_map_adapted", "laxf.optic_map_arrow", "optic.eval_adapted", "optic.laws", "optic.map_adapted", "optic.map_arrow"}
VarOps == {"var.script_eval", "var.forget", "var.forget_eval", "var.forget_monogamous", "var.script"}
LaxOps == {"lax.reset", "lax.set_interfaces", "lax.add_edge_source", "lax.add_edge_target", "lax.append", "lax.compose", "lax.compose_shr", "lax.dagger", "lax.delete_edges", "lax.delete_nodes", "lax.empty", "lax.unit", "lax.from_strict", "lax.h.coequalizer", "lax.h.coproduct_assign", "lax.h.delete_edge", "lax.h.delete_nodes", "lax.h.delete_nodes_witness", "lax.h.discrete", "lax.h.quotient", "lax.h.to_hypergraph", "lax.half_spider", "lax.identity", "lax.is_strict", "lax.lax_compose", "lax.map_edges", "lax.map_nodes", "lax.new_edge", "lax.new_node", "lax.new_operation", "lax.quotient", "lax.quotient_witness", "lax.roundtrip_lax", "lax.roundtrip_strict", "lax.serde_roundtrip", "lax.singleton", "lax.source", "lax.spider", "lax.target", "lax.tensor", "lax.tensor3", "lax.tensor_assign", "lax.tensor_bitor", "lax.to_open_hypergraph", "lax.to_strict", "lax.twist", "lax.unify", "lax.with_edges", "lax.with_nodes"}
\* an operation reached through a categorical trait is judged as the operation itself
BaseOp(op) == CASE op = "strict.source_trait" -> "strict.source" [] op = "strict.target_trait" -> "strict.target"
                [] op = "strict.identity_trait" -> "strict.identity" [] op = "strict.spider_trait" -> "strict.spider"
                [] op = "lax.identity_trait" -> "lax.identity" [] op = "lax.spider_trait" -> "lax.spider"
                [] op = "lax.tensor_trait" -> "lax.tensor" [] OTHER -> op
\* hand-written Clone and PartialEq impls: a clone equals its original, == is equality of the data
CloneOps == {"ff.clone", "sf.clone", "ic.clone_ff", "ic.clone_sf", "hyper.clone", "strict.clone", "arrow.clone"}
EqOps == {"sf.eq", "ic.eq_ff", "ic.eq_sf"}
\* Zero::is_zero of label arrays: the empty array
ConfClone(op, a, o) ==
  CASE op = "ff.clone" -> ValIs(o, a.f) [] op = "sf.clone" -> ValIs(o, a.a)
    [] op \in {"ic.clone_ff", "ic.clone_sf"} -> ValIs(o, a.ic)
    [] op = "hyper.clone" -> ValIs(o, a.h) [] op = "strict.clone" -> ValIs(o, a.f)
    [] op = "arrow.clone" -> ValIs(o, [source |-> a.source, target |-> a.target, w |-> a.w, x |-> a.x])
    [] op \in EqOps -> ValIs(o, a.a = a.b)
    [] op = "sf.is_zero" -> ValIs(o, a.a = <<>>)
    [] OTHER -> FALSE
ConfEvent(st, ev) ==
  LET op == BaseOp(ev.op)  a == ev.args  o == ev.obs IN
  CASE op \in CloneOps \cup EqOps \cup {"sf.is_zero"} -> ConfClone(op, a, o)
    [] op \in ArrOps -> ConfArr(op, a, o)
    [] op \in FFOps -> ConfFF(op, a, o)
    [] op \in ICOps -> ConfIC(op, a, o)
    [] op \in StrictOps -> ConfStrict(op, a, o)
    [] op \in GraphOps -> ConfGraph(op, a, o)
    [] op \in FunctorOps -> ConfFunctor(op, a, o)
    [] op \in OpticOps -> ConfOptic(op, a, o)
    [] op \in VarOps -> ConfVar(op, a, o)
    [] op \in LaxOps -> ConfLax(op, st, a, o)
    [] OTHER -> FALSE

\* state tracked across recorded histories: the logged post-state (re-synchronisation)
NextTracked(st, ev) == IF ev.op \in LaxOps /\ "post" \in DOMAIN ev.obs THEN ev.obs.post ELSE st

\* class of a non-conforming event: named predicates evaluated by the specification (used in the
\* VIOLATION line, the replay file name and the known-findings file)
Classify(ev) ==
  LET o == ev.obs  a == ev.args IN
  IF o.tag = "panic" THEN "panic"
  ELSE IF o.tag = "unknown_op" THEN "unknown-op"
  ELSE IF ev.op \in {"strict.compose", "strict.compose_shr"} THEN
         (IF o.tag = "none" THEN "refused-although-types-agree"
          ELSE IF ~Composable(Abs(a.f), Abs(a.g)) THEN "accepted-although-types-differ"
          ELSE IF ~WFStrict(o.val) THEN "ill-formed-result"
          ELSE "not-the-gluing")
  ELSE IF ev.op \in {"lax.quotient", "lax.h.quotient", "lax.quotient_witness"} /\ HasPre(a) THEN
         (IF o.tag = "err" /\ LaxConsistent(a.pre) THEN "failed-although-consistent"
          ELSE IF o.tag = "err" THEN "failed-quotient-changed-the-diagram"
          ELSE IF ~LaxConsistent(a.pre) THEN "succeeded-although-labels-conflict"
          ELSE IF ~IsQuotientMap(a.pre, o.val) THEN "wrong-fibres"
          ELSE "wrong-post-state")
  ELSE IF ev.op \in {"strict.layer"} /\ o.tag = "val" THEN
         (IF \E v \in 1 .. Len(o.val.unvisited) : (o.val.unvisited[v] = 1) # (v \in Blocked(NE(Abs(a.f)), Dep(Abs(a.f)))) THEN "wrong-visited-flags" ELSE "wrong-layers")
  ELSE "wrong-" \o o.tag
=============================================================================
