------------------------------ MODULE Conform ------------------------------
(***************************************************************************)
(* One conformance predicate per public operation: the relation between    *)
(* logged arguments and the logged observation that the properties allow.  *)
(***************************************************************************)
EXTENDS StrictRep, Json

LaxEmpty == [nodes |-> <<>>, edges |-> <<>>, adj |-> <<>>, ql |-> <<>>, qr |-> <<>>, sources |-> <<>>, targets |-> <<>>]

IsSome(o) == o.tag = "some"
IsNone(o) == o.tag = "none"
IsVal(o) == o.tag = "val"

\* C01 (+C05): Some iff types agree; deep well-formed; isomorphic to the reference gluing
ConfCompose(a, o) ==
  LET f == Abs(a.f)  g == Abs(a.g) IN
  IF Composable(f, g)
  THEN IsSome(o) /\ WFStrict(o.val) /\ Iso(Abs(o.val), ComposeRef(f, g))
  ELSE IsNone(o)
\* C02 (+C05): equality, field for field, with the canonical packing of the juxtaposition
ConfTensor(a, o) == IsVal(o) /\ o.val = Pack(TensorRef(Abs(a.f), Abs(a.g)))

ConfEvent(st, ev) ==
  CASE ev.op = "strict.compose" -> ConfCompose(ev.args, ev.obs)
    [] ev.op = "strict.compose_shr" -> ConfCompose(ev.args, ev.obs)
    [] ev.op = "strict.tensor" -> ConfTensor(ev.args, ev.obs)
    [] ev.op = "strict.tensor_bitor" -> ConfTensor(ev.args, ev.obs)
    [] OTHER -> FALSE

Classify(ev) == IF ev.obs.tag = "panic" THEN "panic" ELSE IF ev.obs.tag = "unknown_op" THEN "unknown-op" ELSE "wrong"
NextTracked(st, ev) == st
=============================================================================
