------------------------------ MODULE Arrays ------------------------------
(***************************************************************************)
(* C07: scalar definitions of the array primitives (Array / OrdArray /     *)
(* NaturalArray), and *contracts* (relations) where the interface leaves a  *)
(* choice open.  Arrays are TLA+ sequences; indices are 0-based values.     *)
(***************************************************************************)
EXTENDS Base

Gather(a, idx) == [i \in 1 .. Len(idx) |-> a[idx[i] + 1]]
Concat(a, b) == a \o b
Fill(x, n) == [i \in 1 .. n |-> x]
Arange(lo, hi) == [i \in 1 .. (hi - lo) |-> lo + i - 1]
CumSum(a) == PrefixSums(a)
Total(a) == SumSeq(a)
SegSum(sizes, x) == LET segs == SplitBy(sizes, x) IN [k \in 1 .. Len(sizes) |-> SumSeq(segs[k])]
Repeat(counts, x) == FlatSeq([i \in 1 .. Len(counts) |-> [j \in 1 .. counts[i] |-> x[i]]])
SegArange(sizes) == FlatSeq([i \in 1 .. Len(sizes) |-> [j \in 1 .. sizes[i] |-> j - 1]])
Quot(a, d) == [i \in 1 .. Len(a) |-> a[i] \div d]
Rem(a, d) == [i \in 1 .. Len(a) |-> a[i] % d]
MulConstAdd(a, c, x) == [i \in 1 .. Len(a) |-> a[i] * c + x[i]]
AddArr(a, b) == [i \in 1 .. Len(a) |-> a[i] + b[i]]
SubArr(a, b) == [i \in 1 .. Len(a) |-> a[i] - b[i]]
AddConst(c, a) == [i \in 1 .. Len(a) |-> c + a[i]]
Bincount(a, size) == [k \in 1 .. size |-> Count(a, k - 1)]
ZeroIdx(a) == SetToSortedSeq({i - 1 : i \in {j \in 1 .. Len(a) : a[j] = 0}})
HasMax(a) == Len(a) > 0
MaxOf(a) == SetMax(RangeOf(a))

\* the five range forms, resolved against an array of length n  ->  <<start, end>> (end exclusive)
RangeOfForm(r, n) ==
  CASE r.form = "full"  -> <<0, n>>
    [] r.form = "from"  -> <<r.a, n>>
    [] r.form = "to"    -> <<0, r.b>>
    [] r.form = "range" -> <<r.a, r.b>>
    [] r.form = "toinc" -> <<0, r.b + 1>>
RangeInBounds(r, n) == LET p == RangeOfForm(r, n) IN 0 <= p[1] /\ p[1] <= p[2] /\ p[2] <= n
Slice(a, r) == LET p == RangeOfForm(r, Len(a)) IN SubSeq(a, p[1] + 1, p[2])
SetRange(a, r, v) == LET p == RangeOfForm(r, Len(a)) IN
   [i \in 1 .. Len(a) |-> IF i > p[1] /\ i <= p[2] THEN v[i - p[1]] ELSE a[i]]

IsPermutation(p, n) == Len(p) = n /\ RangeOf(p) = Range0(n)
IsMonotone(a) == \A i \in 1 .. (Len(a) - 1) : a[i] <= a[i + 1]

(* ---- contracts (any conforming answer is accepted) ---- *)
ArgsortOK(a, p) == IsPermutation(p, Len(a)) /\ IsMonotone(Gather(a, p))
\* sort_by(values, key): some sorting permutation of key applied to values
SortByOK(vals, key, out) ==
   /\ Len(out) = Len(vals)
   /\ \E p \in {q \in [1 .. Len(key) -> Range0(Len(key))] : ArgsortOK(key, q)} : out = Gather(vals, p)
\* cheaper equivalent used by the judge: out pairs up with vals through keys:
\* the multiset of (key, value) pairs is preserved and keys are monotone along out.
SortByOK2(vals, key, out, p) == ArgsortOK(key, p) /\ out = Gather(vals, p)

\* scatter: positions written take one of the values written there; the rest is filler
ScatterOK(a, idx, n, out) ==
   /\ Len(out) = n
   /\ \A p \in Range0(n) : LET W == {i \in 1 .. Len(idx) : idx[i] = p} IN
        W # {} => out[p + 1] \in {a[i] : i \in W}
\* in-place forms: unwritten positions keep their old value
ScatterAssignOK(old, idx, vals, out) ==
   /\ Len(out) = Len(old)
   /\ \A p \in Range0(Len(old)) : LET W == {i \in 1 .. Len(idx) : idx[i] = p} IN
        IF W = {} THEN out[p + 1] = old[p + 1] ELSE out[p + 1] \in {vals[i] : i \in W}
ScatterAssignConst(old, idx, c) ==
   [p \in 1 .. Len(old) |-> IF \E i \in 1 .. Len(idx) : idx[i] = p - 1 THEN c ELSE old[p]]
ScatterSubAssign(old, idx, rhs) ==
   [p \in 1 .. Len(old) |-> old[p] - SumSeq([i \in 1 .. Len(idx) |-> IF idx[i] = p - 1 THEN rhs[i] ELSE 0])]

SparseBincountOK(a, keys, counts) ==
   /\ Len(keys) = Len(counts) /\ IsInjectiveSeq(keys) /\ RangeOf(keys) = RangeOf(a)
   /\ \A i \in 1 .. Len(keys) : counts[i] = Count(a, keys[i])

EdgePairs(src, tgt) == {<<src[i], tgt[i]>> : i \in 1 .. Len(src)}
\* component labels: dense numbering 0..k-1; same label iff connected
ComponentsOK(src, tgt, n, labels, k) ==
   /\ Len(labels) = n /\ RangeOf(labels) = Range0(k)
   \* two nodes carry the same label iff they are connected (one closure per node, through the canonical quotient map)
   /\ LET q == QuotMap(n, EdgePairs(src, tgt)) IN
      \A a, b \in 1 .. n : (labels[a] = labels[b]) <=> (q[a] = q[b])
=============================================================================
