------------------------------- MODULE Base -------------------------------
(***************************************************************************)
(* Helpers shared by all modules.  Identifiers of nodes, hyperedges and    *)
(* array positions are the implementation's 0-based indices; they are kept *)
(* as they are.  TLA+ sequences stay 1-based, so element i (0-based) of a   *)
(* sequence s is At(s, i) = s[i+1].                                        *)
(***************************************************************************)
EXTENDS Naturals, Integers, Sequences, FiniteSets, TLC

At(s, i) == s[i + 1]
Range0(n) == 0 .. (n - 1)
Idx(s) == 1 .. Len(s)
RangeOf(s) == {s[i] : i \in 1 .. Len(s)}

\* all sequences over S of length 0..n
SeqsUpTo(S, n) == UNION {[1 .. k -> S] : k \in 0 .. n}
SeqsOfLen(S, k) == [1 .. k -> S]

MapSeq(s, Op(_)) == [i \in 1 .. Len(s) |-> Op(s[i])]
\* apply a 0-based lookup table (a sequence) to a sequence of indices
Thru(s, tbl) == [i \in 1 .. Len(s) |-> tbl[s[i] + 1]]
Shift(s, k) == [i \in 1 .. Len(s) |-> s[i] + k]

RECURSIVE SumSeq(_)
SumSeq(s) == IF s = <<>> THEN 0 ELSE Head(s) + SumSeq(Tail(s))

RECURSIVE FlatSeq(_)
FlatSeq(ss) == IF ss = <<>> THEN <<>> ELSE Head(ss) \o FlatSeq(Tail(ss))

\* prefix sums: PrefixSums(<<2,3>>) = <<0,2,5>>   (length n+1)
RECURSIVE PrefixSumsR(_, _)
PrefixSumsR(s, acc) == IF s = <<>> THEN <<acc>> ELSE <<acc>> \o PrefixSumsR(Tail(s), acc + Head(s))
PrefixSums(s) == PrefixSumsR(s, 0)

\* split a flat sequence into consecutive segments of the given sizes
SplitBy(sizes, vals) ==
  LET p == PrefixSums(sizes)
  IN [k \in 1 .. Len(sizes) |-> SubSeq(vals, p[k] + 1, p[k + 1])]

Count(s, x) == Cardinality({i \in 1 .. Len(s) : s[i] = x})
SameMultiset(a, b) == Len(a) = Len(b) /\ \A x \in RangeOf(a) \cup RangeOf(b) : Count(a, x) = Count(b, x)
IsInjectiveSeq(s) == \A i, j \in 1 .. Len(s) : s[i] = s[j] => i = j
SetMin(S) == CHOOSE x \in S : \A y \in S : x <= y
SetMax(S) == CHOOSE x \in S : \A y \in S : x >= y
SelectIdx(s, P(_)) == {i \in 1 .. Len(s) : P(s[i])}

\* positions (1-based) in increasing order of the members of a set of naturals, as a sequence
RECURSIVE SetToSortedSeq(_)
SetToSortedSeq(S) == IF S = {} THEN <<>> ELSE LET m == SetMin(S) IN <<m>> \o SetToSortedSeq(S \ {m})

\* some enumeration of a finite set as a sequence (deterministic for TLC)
RECURSIVE SetToSeqAny(_)
SetToSeqAny(S) == IF S = {} THEN <<>> ELSE LET x == CHOOSE y \in S : TRUE IN <<x>> \o SetToSeqAny(S \ {x})

\* transitive closure of a relation given as a set of pairs
RECURSIVE TC(_)
TC(R) == LET R2 == R \cup {<<pq[1][1], pq[2][2]>> : pq \in {x \in R \X R : x[1][2] = x[2][1]}}
         IN IF R2 = R THEN R ELSE TC(R2)

\* equivalence closure: the set of nodes reachable from S by the symmetric pairs
RECURSIVE Closure(_, _)
Closure(S, pairs) ==
  LET S2 == S \cup {p[2] : p \in {q \in pairs : q[1] \in S}} \cup {p[1] : p \in {q \in pairs : q[2] \in S}}
  IN IF S2 = S THEN S ELSE Closure(S2, pairs)

\* canonical quotient map 0..n-1 -> 0..k-1 : classes numbered in order of their least member
QuotMap(n, pairs) ==
  LET rep == [i \in Range0(n) |-> SetMin(Closure({i}, pairs))]
      reps == {rep[i] : i \in Range0(n)}
      idx == [r \in reps |-> Cardinality({r2 \in reps : r2 < r})]
  IN [i \in 1 .. n |-> idx[rep[i - 1]]]        \* as a 0-based table (sequence)

NumClasses(q) == Cardinality(RangeOf(q))
Connected(n, pairs, a, b) == b \in Closure({a}, pairs)
=============================================================================
