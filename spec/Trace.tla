------------------------------- MODULE Trace -------------------------------
(***************************************************************************)
(* Trace validation: events recorded from the real library (one JSON line  *)
(* per public call: op, args, obs) are checked against the relations of the *)
(* specification.  A non-conforming event never stops the run: it is        *)
(* flagged (NONCONF line), the tracked state is re-synchronised on the       *)
(* logged post-state, and validation goes on.                                *)
(***************************************************************************)
EXTENDS Conform, IOUtils
Rec == ndJsonDeserialize(IOEnv.TRACE)

VARIABLES l, nbad, st
tvars == <<l, nbad, st>>

TraceInit == l = 1 /\ nbad = 0 /\ st = LaxEmpty

Flag(ev) == PrintT(<<"NONCONF", ToJson([line |-> l, id |-> ev.id, op |-> ev.op, class |-> Classify(ev)])>>)

Step == /\ l <= Len(Rec)
        /\ LET ev == Rec[l] IN
             /\ st' = NextTracked(st, ev)
             /\ IF ConfEvent(st, ev) THEN nbad' = nbad ELSE nbad' = nbad + 1 /\ Flag(ev)
        /\ l' = l + 1
TraceSpec == TraceInit /\ [][Step]_tvars

\* every line was consumed (otherwise the run is a tool error, not a verdict)
TraceAccepted ==
   IF TLCGet("stats").diameter - 1 = Len(Rec) THEN PrintT(<<"TRACE-CONSUMED", Len(Rec)>>)
   ELSE PrintT(<<"TRACE-INCOMPLETE", TLCGet("stats").diameter - 1, Len(Rec)>>) /\ FALSE
=============================================================================
