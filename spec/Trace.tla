------------------------------- MODULE Trace -------------------------------
(***************************************************************************)
(* Trace validation: events recorded from the real library (one JSON line  *)
(* per public call: op, args, obs) are checked against the relations of the *)
(* specification.  A non-conforming event never stops the run: it is        *)
(* flagged (NONCONF line), the tracked state is re-synchronised on the       *)
(* logged post-state, and validation goes on.                                *)
(***************************************************************************)
EXTENDS Conform, IOUtils
Rec == ndJsonDeserialize(IOEnv.TRACE)

VARIABLES l, nbad, st, stok
tvars == <<l, nbad, st, stok>>

TraceInit == l = 1 /\ nbad = 0 /\ st = LaxEmpty /\ stok = TRUE

Flag(ev) == PrintT(<<"NONCONF", ToJson([line |-> l, id |-> ev.id, op |-> ev.op, class |-> Classify(ev)])>>)

\* A history step is judged from the tracked state.  If an earlier step of the same history logged a
\* post-state that is not even well-formed (it was flagged then), there is nothing to re-synchronise on:
\* the rest of that history is not judged (SKIPPED lines) until the next reset.
Judgeable(ev) == HasPre(ev.args) \/ ev.op \notin LaxOps \/ ev.op = "lax.reset" \/ stok
Skip(ev) == PrintT(<<"SKIPPED", ToJson([line |-> l, id |-> ev.id, op |-> ev.op])>>)
Step == /\ l <= Len(Rec)
        /\ LET ev == Rec[l] IN
             /\ st' = NextTracked(st, ev)
             /\ stok' = (IF ev.op \in LaxOps /\ "post" \in DOMAIN ev.obs /\ ~HasPre(ev.args) THEN WFLax(ev.obs.post) ELSE stok)
             /\ IF ~Judgeable(ev) THEN nbad' = nbad /\ Skip(ev)
                ELSE IF ConfEvent(st, ev) THEN nbad' = nbad ELSE nbad' = nbad + 1 /\ Flag(ev)
        /\ l' = l + 1
TraceSpec == TraceInit /\ [][Step]_tvars

\* every line was consumed (otherwise the run is a tool error, not a verdict)
TraceAccepted ==
   IF TLCGet("stats").diameter - 1 = Len(Rec) THEN PrintT(<<"TRACE-CONSUMED", Len(Rec)>>)
   ELSE PrintT(<<"TRACE-INCOMPLETE", TLCGet("stats").diameter - 1, Len(Rec)>>) /\ FALSE
=============================================================================
