------------------------------ MODULE Domains ------------------------------
(***************************************************************************)
(* Small-scope quantifier domains shared by the bounded instances.         *)
(***************************************************************************)
EXTENDS StrictRep

EdgesOver(n, A, EL) == {Edge(l, s, t) : l \in EL, s \in SeqsUpTo(Range0(n), A), t \in SeqsUpTo(Range0(n), A)}
\* all open hypergraphs with exactly n nodes
DiagramsN(n, E, A, I, NL, EL) ==
  {OH(w, e, s, t) : w \in SeqsOfLen(NL, n), e \in SeqsUpTo(EdgesOver(n, A, EL), E),
                    s \in SeqsUpTo(Range0(n), I), t \in SeqsUpTo(Range0(n), I)}
Diagrams(N, E, A, I, NL, EL) == UNION {DiagramsN(n, E, A, I, NL, EL) : n \in 0 .. N}
\* hypergraphs without interfaces
HypergraphsN(n, E, A, NL, EL) == {OH(w, e, <<>>, <<>>) : w \in SeqsOfLen(NL, n), e \in SeqsUpTo(EdgesOver(n, A, EL), E)}
Hypergraphs(N, E, A, NL, EL) == UNION {HypergraphsN(n, E, A, NL, EL) : n \in 0 .. N}

\* all finite functions with source <= S and target <= T
FinFuns(S, T) == UNION {{FF(tbl, tgt) : tbl \in SeqsUpTo(Range0(tgt), S)} : tgt \in 0 .. T}
FinFunsTo(S, tgt) == {FF(tbl, tgt) : tbl \in SeqsUpTo(Range0(tgt), S)}
FinFunsFromTo(src, tgt) == {FF(tbl, tgt) : tbl \in SeqsOfLen(Range0(tgt), src)}
=============================================================================
