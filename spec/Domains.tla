------------------------------ MODULE Domains ------------------------------
(***************************************************************************)
(* Small-scope quantifier domains shared by the bounded instances.         *)
(***************************************************************************)
EXTENDS VarBuilder

EdgesOver(n, A, EL) == {Edge(l, s, t) : l \in EL, s \in SeqsUpTo(Range0(n), A), t \in SeqsUpTo(Range0(n), A)}
\* all open hypergraphs with exactly n nodes
DiagramsN(n, E, A, I, NL, EL) ==
  {OH(w, e, s, t) : w \in SeqsOfLen(NL, n), e \in SeqsUpTo(EdgesOver(n, A, EL), E),
                    s \in SeqsUpTo(Range0(n), I), t \in SeqsUpTo(Range0(n), I)}
Diagrams(N, E, A, I, NL, EL) == UNION {DiagramsN(n, E, A, I, NL, EL) : n \in 0 .. N}
\* all open hypergraphs of a given type ta -> tb (built directly, never filtered out of a big set)
TypedSeqs(w, ty) == {s \in SeqsOfLen(Range0(Len(w)), Len(ty)) : Thru(s, w) = ty}
TypedDiagrams(N, E, A, NL, EL, ta, tb) ==
  UNION {UNION {{OH(w, e, s, t) : e \in SeqsUpTo(EdgesOver(n, A, EL), E), s \in TypedSeqs(w, ta), t \in TypedSeqs(w, tb)}
                : w \in SeqsOfLen(NL, n)} : n \in 0 .. N}
\* permutations of 0..n-1 as 0-based tables
Perms0(n) == {p \in [1 .. n -> Range0(n)] : RangeOf(p) = Range0(n)}
\* monogamous circuit over the signature of Eval.tla with the given operation labels and ni inputs:
\* node ids are given to producers in order (inputs, then the target positions of each operation);
\* the permutation p assigns a node to every consumer slot (source positions in order, then the outputs)
Circuit(labels, ni, p) ==
  LET coar == [k \in 1 .. Len(labels) |-> Coarity(labels[k])]
      ar == [k \in 1 .. Len(labels) |-> Arity(labels[k])]
      toff == PrefixSums(coar)  soff == PrefixSums(ar)
      n == ni + SumSeq(coar)
      nout == n - SumSeq(ar)
  IN OH([i \in 1 .. n |-> 0],
        [k \in 1 .. Len(labels) |-> Edge(labels[k], [j \in 1 .. ar[k] |-> p[soff[k] + j]], [j \in 1 .. coar[k] |-> ni + toff[k] + j - 1])],
        Arange(0, ni), [j \in 1 .. nout |-> p[SumSeq(ar) + j]])
\* hypergraphs without interfaces
HypergraphsN(n, E, A, NL, EL) == {OH(w, e, <<>>, <<>>) : w \in SeqsOfLen(NL, n), e \in SeqsUpTo(EdgesOver(n, A, EL), E)}
Hypergraphs(N, E, A, NL, EL) == UNION {HypergraphsN(n, E, A, NL, EL) : n \in 0 .. N}

\* all finite functions with source <= S and target <= T
FinFuns(S, T) == UNION {{FF(tbl, tgt) : tbl \in SeqsUpTo(Range0(tgt), S)} : tgt \in 0 .. T}
FinFunsTo(S, tgt) == {FF(tbl, tgt) : tbl \in SeqsUpTo(Range0(tgt), S)}
FinFunsFromTo(src, tgt) == {FF(tbl, tgt) : tbl \in SeqsOfLen(Range0(tgt), src)}

\* lax diagrams: a plain diagram plus up to Q pending unification pairs
LaxDiagramsN(n, E, A, I, Q, NL, EL) ==
  {[nodes |-> w, edges |-> [i \in 1 .. Len(e) |-> e[i].l], adj |-> [i \in 1 .. Len(e) |-> HE(e[i].s, e[i].t)],
    ql |-> [i \in 1 .. Len(q) |-> q[i][1]], qr |-> [i \in 1 .. Len(q) |-> q[i][2]], sources |-> s, targets |-> t] :
      w \in SeqsOfLen(NL, n), e \in SeqsUpTo(EdgesOver(n, A, EL), E),
      s \in SeqsUpTo(Range0(n), I), t \in SeqsUpTo(Range0(n), I), q \in SeqsUpTo(Range0(n) \X Range0(n), Q)}
LaxDiagrams(N, E, A, I, Q, NL, EL) == UNION {LaxDiagramsN(n, E, A, I, Q, NL, EL) : n \in 0 .. N}
=============================================================================
