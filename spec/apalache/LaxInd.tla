------------------------------- MODULE LaxInd -------------------------------
(***************************************************************************)
(* Unbounded-history safety of the lax builder by an inductive invariant,   *)
(* checked with Apalache (symbolic, so not limited to histories from the     *)
(* empty diagram as the TLC instances are):                                  *)
(*     IndInit => WF        and        WF /\ Next => WF'                      *)
(* where IndInit is *any* well-formed state with sequences of length <= 3.    *)
(* The actions are the list-model builder calls of LaxMachine.tla restated    *)
(* over typed variables (one per public field); deletion removes one node     *)
(* and renumbers every reference, dropping the ones that mention it.          *)
(***************************************************************************)
EXTENDS Integers, Sequences, FiniteSets, Apalache

VARIABLES
  \* @type: Seq(Int);
  nodes,
  \* @type: Seq(Int);
  edges,
  \* @type: Seq(Seq(Int));
  adjS,
  \* @type: Seq(Seq(Int));
  adjT,
  \* @type: Seq(Int);
  ql,
  \* @type: Seq(Int);
  qr,
  \* @type: Seq(Int);
  sources,
  \* @type: Seq(Int);
  targets

\* @type: (Seq(Int), Int) => Bool;
InRange(s, n) == \A i \in DOMAIN s : s[i] >= 0 /\ s[i] < n

WF ==
  /\ Len(adjS) = Len(edges) /\ Len(adjT) = Len(edges) /\ Len(ql) = Len(qr)
  /\ InRange(ql, Len(nodes)) /\ InRange(qr, Len(nodes))
  /\ InRange(sources, Len(nodes)) /\ InRange(targets, Len(nodes))
  /\ \A i \in DOMAIN adjS : InRange(adjS[i], Len(nodes))
  /\ \A i \in DOMAIN adjT : InRange(adjT[i], Len(nodes))

Small ==
  /\ Len(nodes) <= 3 /\ Len(edges) <= 2 /\ Len(ql) <= 2 /\ Len(sources) <= 2 /\ Len(targets) <= 2
  /\ \A i \in DOMAIN adjS : Len(adjS[i]) <= 2
  /\ \A i \in DOMAIN adjT : Len(adjT[i]) <= 2

Init ==
  /\ nodes = <<>> /\ edges = <<>> /\ adjS = <<>> /\ adjT = <<>>
  /\ ql = <<>> /\ qr = <<>> /\ sources = <<>> /\ targets = <<>>

\* any well-formed small state
IndInit ==
  /\ nodes = Gen(3) /\ edges = Gen(2) /\ adjS = Gen(2) /\ adjT = Gen(2)
  /\ ql = Gen(2) /\ qr = Gen(2) /\ sources = Gen(2) /\ targets = Gen(2)
  /\ WF /\ Small

NewNode ==
  \E lab \in 0 .. 1 :
    /\ nodes' = Append(nodes, lab)
    /\ UNCHANGED <<edges, adjS, adjT, ql, qr, sources, targets>>

NewEdge ==
  \E x \in 0 .. 1, a \in 0 .. 2, b \in 0 .. 2 :
    /\ a < Len(nodes) /\ b < Len(nodes)
    /\ edges' = Append(edges, x)
    /\ adjS' = Append(adjS, <<a>>)
    /\ adjT' = Append(adjT, <<b, a>>)
    /\ UNCHANGED <<nodes, ql, qr, sources, targets>>

AddEdgeSource ==
  \E e \in DOMAIN edges, lab \in 0 .. 1 :
    /\ nodes' = Append(nodes, lab)
    /\ adjS' = [adjS EXCEPT ![e] = Append(@, Len(nodes))]
    /\ UNCHANGED <<edges, adjT, ql, qr, sources, targets>>

AddEdgeTarget ==
  \E e \in DOMAIN edges, lab \in 0 .. 1 :
    /\ nodes' = Append(nodes, lab)
    /\ adjT' = [adjT EXCEPT ![e] = Append(@, Len(nodes))]
    /\ UNCHANGED <<edges, adjS, ql, qr, sources, targets>>

Unify ==
  \E v \in 0 .. 3, w \in 0 .. 3 :
    /\ v < Len(nodes) /\ w < Len(nodes)
    /\ ql' = Append(ql, v) /\ qr' = Append(qr, w)
    /\ UNCHANGED <<nodes, edges, adjS, adjT, sources, targets>>

SetInterfaces ==
  \E a \in 0 .. 3, b \in 0 .. 3 :
    /\ a < Len(nodes) /\ b < Len(nodes)
    /\ sources' = <<a, b>> /\ targets' = <<b>>
    /\ UNCHANGED <<nodes, edges, adjS, adjT, ql, qr>>

\* references after deleting node d: those equal to d are dropped, larger ones shift down
\* @type: (Seq(Int), Int) => Seq(Int);
Renum(s, d) ==
  LET \* @type: (Seq(Int), Int) => Seq(Int);
      step(acc, v) == IF v = d THEN acc ELSE Append(acc, IF v > d THEN v - 1 ELSE v)
  IN ApaFoldSeqLeft(step, <<>>, s)

\* @type: (Seq(Int), Int) => Seq(Int);
DropAt(s, d) ==
  LET \* @type: (<<Seq(Int), Int>>, Int) => <<Seq(Int), Int>>;
      step(acc, v) == IF acc[2] = d THEN <<acc[1], acc[2] + 1>> ELSE <<Append(acc[1], v), acc[2] + 1>>
  IN ApaFoldSeqLeft(step, <<<<>>, 0>>, s)[1]

\* @type: (Seq(Seq(Int)), Int) => Seq(Seq(Int));
RenumAll(ss, d) ==
  LET \* @type: (Seq(Seq(Int)), Seq(Int)) => Seq(Seq(Int));
      step(acc, x) == Append(acc, Renum(x, d))
  IN ApaFoldSeqLeft(step, <<>>, ss)

DeleteNode ==
  \E d \in 0 .. 3 :
    /\ d < Len(nodes)
    /\ nodes' = DropAt(nodes, d)
    /\ adjS' = RenumAll(adjS, d)
    /\ adjT' = RenumAll(adjT, d)
    /\ sources' = Renum(sources, d) /\ targets' = Renum(targets, d)
    \* a simplification that is still a refinement target for well-formedness: both lists are
    \* renumbered independently only when no pending pair mentions d; otherwise they are cleared
    /\ IF \E i \in DOMAIN ql : ql[i] = d \/ qr[i] = d
       THEN ql' = <<>> /\ qr' = <<>>
       ELSE ql' = Renum(ql, d) /\ qr' = Renum(qr, d)
    /\ UNCHANGED edges

Next == NewNode \/ NewEdge \/ AddEdgeSource \/ AddEdgeTarget \/ Unify \/ SetInterfaces \/ DeleteNode
=============================================================================
