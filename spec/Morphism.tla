------------------------------ MODULE Morphism ------------------------------
(***************************************************************************)
(* C18: hypergraph morphisms.  g, h : plain hypergraphs [w, e]; w, x :      *)
(* finite functions on nodes and on hyperedges.  Conditions per error       *)
(* variant; monomorphism; convexity by brute force over paths; and the       *)
(* library's two-layer search, transcribed (design theorem: both agree).     *)
(***************************************************************************)
EXTENDS Eval

WDefined(g, h, w) == w.target = Len(h.w)
WNatural(g, h, w) == WDefined(g, h, w) /\ g.w = Thru(w.table, h.w)
XDefined(g, h, x) == x.target = Len(h.e)
XNatural(g, h, x) == XDefined(g, h, x) /\ [i \in 1 .. Len(g.e) |-> g.e[i].l] = [i \in 1 .. Len(x.table) |-> h.e[x.table[i] + 1].l]
IncDefined(g, h, w, x) == Src(w) = Len(g.w) /\ w.target = Len(h.w) /\ Src(x) = Len(g.e) /\ x.target = Len(h.e) /\ WFFF(w) /\ WFFF(x)
SNatural(g, h, w, x) == IncDefined(g, h, w, x) /\ \A i \in 1 .. Len(g.e) : Thru(g.e[i].s, w.table) = h.e[x.table[i] + 1].s
TNatural(g, h, w, x) == IncDefined(g, h, w, x) /\ \A i \in 1 .. Len(g.e) : Thru(g.e[i].t, w.table) = h.e[x.table[i] + 1].t
IsMorphism(g, h, w, x) == WNatural(g, h, w) /\ XNatural(g, h, x) /\ SNatural(g, h, w, x) /\ TNatural(g, h, w, x)
\* a rejection names a condition that actually fails (or is undefined)
VariantFails(g, h, w, x, v) ==
  CASE v = "TypeMismatchW" -> ~WDefined(g, h, w)
    [] v = "TypeMismatchX" -> ~XDefined(g, h, x)
    [] v = "NotNaturalW" -> ~WNatural(g, h, w)
    [] v = "NotNaturalX" -> ~XNatural(g, h, x)
    [] v = "NotNaturalS" -> ~SNatural(g, h, w, x)
    [] v = "NotNaturalT" -> ~TNatural(g, h, w, x)
    [] OTHER -> FALSE
IsMono(w, x) == IsInjectiveSeq(w.table) /\ IsInjectiveSeq(x.table)

\* node successor pairs through a given set of hyperedges (1-based positions)
SuccVia(h, E) == UNION {{<<h.e[i].s[a], h.e[i].t[b]>> : a \in 1 .. Len(h.e[i].s), b \in 1 .. Len(h.e[i].t)} : i \in E}
ConvexRef(h, w, x) ==
  /\ IsMono(w, x)
  /\ LET img == RangeOf(w.table)
         inE == {x.table[i] + 1 : i \in 1 .. Len(x.table)}
         outE == (1 .. Len(h.e)) \ inE
         T == TC(SuccVia(h, 1 .. Len(h.e)))
         reach(a, b) == a = b \/ <<a, b>> \in T
     IN ~ \E a \in img, b \in img, uv \in SuccVia(h, outE) : reach(a, uv[1]) /\ reach(uv[2], b)

\* transcription of the two-layer breadth-first search (sets instead of arrays)
Succs(Rel, Fr) == {p[2] : p \in {q \in Rel : q[1] \in Fr}}
RECURSIVE TwoLayer(_, _, _, _, _, _, _)
TwoLayer(Rin, Rout, Rall, v0, v1, f0, f1) ==
  IF f0 = {} /\ f1 = {} THEN v1
  ELSE LET n0 == Succs(Rin, f0) \ v0
           n1 == (Succs(Rout, f0) \cup Succs(Rall, f1)) \ v1
       IN IF n0 = {} /\ n1 = {} THEN v1 ELSE TwoLayer(Rin, Rout, Rall, v0 \cup n0, v1 \cup n1, n0, n1)
ConvexSearch(h, w, x) ==
  /\ IsMono(w, x)
  /\ LET img == RangeOf(w.table)
         inE == {x.table[i] + 1 : i \in 1 .. Len(x.table)}
         outE == (1 .. Len(h.e)) \ inE
         v1 == TwoLayer(SuccVia(h, inE), SuccVia(h, outE), SuccVia(h, 1 .. Len(h.e)), img, {}, img, {})
     IN v1 \cap img = {}
=============================================================================
