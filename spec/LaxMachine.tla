----------------------------- MODULE LaxMachine -----------------------------
(***************************************************************************)
(* C09, C10, C11 (and the lax half of C02, C04): the lax (mutable) open     *)
(* hypergraph as a plain list model.  The state is a record                 *)
(*   [nodes, edges, adj : Seq([s, t]), ql, qr, sources, targets]            *)
(* - exactly the public fields of the implementation, which has no hidden   *)
(* state.  Every builder call is a pure operator from state (and arguments) *)
(* to [st |-> new state, ret |-> returned value], written from the          *)
(* property's wording (list manipulation only).                             *)
(***************************************************************************)
EXTENDS StrictRep

LaxEmpty == [nodes |-> <<>>, edges |-> <<>>, adj |-> <<>>, ql |-> <<>>, qr |-> <<>>, sources |-> <<>>, targets |-> <<>>]
HE(s, t) == [s |-> s, t |-> t]
LN(st) == Len(st.nodes)
LE(st) == Len(st.edges)
WFLax(st) ==
  /\ Len(st.adj) = Len(st.edges) /\ Len(st.ql) = Len(st.qr)
  /\ InRangeSeq(st.ql, LN(st)) /\ InRangeSeq(st.qr, LN(st))
  /\ InRangeSeq(st.sources, LN(st)) /\ InRangeSeq(st.targets, LN(st))
  /\ \A i \in 1 .. Len(st.adj) : InRangeSeq(st.adj[i].s, LN(st)) /\ InRangeSeq(st.adj[i].t, LN(st))
LaxPairs(st) == {<<st.ql[i], st.qr[i]>> : i \in 1 .. Len(st.ql)}
LaxIsStrict(st) == st.ql = <<>>

R(st, ret) == [st |-> st, ret |-> ret]

(* ---- builder calls (C11) ---- *)
LNewNode(st, lab) == R([st EXCEPT !.nodes = Append(@, lab)], LN(st))
LNewEdge(st, x, s, t) == R([st EXCEPT !.edges = Append(@, x), !.adj = Append(@, HE(s, t))], LE(st))
LNewOperation(st, x, a, b) ==
  LET n == LN(st)
      s == Arange(n, n + Len(a))
      t == Arange(n + Len(a), n + Len(a) + Len(b))
  IN R([st EXCEPT !.nodes = @ \o a \o b, !.edges = Append(@, x), !.adj = Append(@, HE(s, t))],
       [edge |-> LE(st), s |-> s, t |-> t])
LAddEdgeSource(st, e, lab) == R([st EXCEPT !.nodes = Append(@, lab), !.adj[e + 1].s = Append(@, LN(st))], LN(st))
LAddEdgeTarget(st, e, lab) == R([st EXCEPT !.nodes = Append(@, lab), !.adj[e + 1].t = Append(@, LN(st))], LN(st))
LUnify(st, v, w) == [st EXCEPT !.ql = Append(@, v), !.qr = Append(@, w)]

\* deletion: the *set* of named ids; survivors keep their order
DelAccepts(ids, n) == \A i \in 1 .. Len(ids) : ids[i] < n
NewIndex(del, i) == Cardinality({j \in 0 .. (i - 1) : j \notin del})
KeepRenum(s, del) == LET kept == SelectSeq(s, LAMBDA v : v \notin del) IN [i \in 1 .. Len(kept) |-> NewIndex(del, kept[i])]
\* sequence s restricted to positions (1-based) not in the set P
RECURSIVE DropPositionsR(_, _, _)
DropPositionsR(s, P, i) == IF i > Len(s) THEN <<>> ELSE (IF i \in P THEN <<>> ELSE <<s[i]>>) \o DropPositionsR(s, P, i + 1)
DropPositions(s, P) == DropPositionsR(s, P, 1)

LDeleteNodesOpen(st, ids) ==
  LET del == RangeOf(ids)
      deadPairs == {i \in 1 .. Len(st.ql) : st.ql[i] \in del \/ st.qr[i] \in del}
  IN R([nodes |-> DropPositions(st.nodes, {d + 1 : d \in del}),
        edges |-> st.edges,
        adj |-> [i \in 1 .. Len(st.adj) |-> HE(KeepRenum(st.adj[i].s, del), KeepRenum(st.adj[i].t, del))],
        ql |-> KeepRenum(DropPositions(st.ql, deadPairs), del),
        qr |-> KeepRenum(DropPositions(st.qr, deadPairs), del),
        sources |-> KeepRenum(st.sources, del),
        targets |-> KeepRenum(st.targets, del)],
       \* the renumbering reported by delete_nodes_witness: old id -> new id, or nothing
       [i \in 1 .. LN(st) |-> IF (i - 1) \in del THEN [tag |-> "none"] ELSE [tag |-> "some", val |-> NewIndex(del, i - 1)]])
LDeleteEdges(st, ids) ==
  LET del == {d + 1 : d \in RangeOf(ids)}
  IN [st EXCEPT !.edges = DropPositions(@, del), !.adj = DropPositions(@, del)]
LMapNodes(st, tbl) == [st EXCEPT !.nodes = Thru(@, tbl)]
LMapEdges(st, tbl) == [st EXCEPT !.edges = Thru(@, tbl)]

(* ---- quotient (C09) ---- *)
LaxConsistent(st) == \A a, b \in Range0(LN(st)) : Connected(LN(st), LaxPairs(st), a, b) => st.nodes[a + 1] = st.nodes[b + 1]
\* state after quotienting by a given surjection q (a 0-based table)
LApplyQuot(st, q, k) ==
  [nodes |-> [c \in 1 .. k |-> st.nodes[CHOOSE i \in 1 .. LN(st) : q[i] = c - 1]],
   edges |-> st.edges,
   adj |-> [i \in 1 .. Len(st.adj) |-> HE(Thru(st.adj[i].s, q), Thru(st.adj[i].t, q))],
   ql |-> <<>>, qr |-> <<>>,
   sources |-> Thru(st.sources, q), targets |-> Thru(st.targets, q)]
\* is q (a finite function) an admissible quotient map for st ?
IsQuotientMap(st, q) ==
  /\ Src(q) = LN(st) /\ RangeOf(q.table) = Range0(q.target)
  /\ \A a, b \in Range0(LN(st)) : (q.table[a + 1] = q.table[b + 1]) <=> Connected(LN(st), LaxPairs(st), a, b)
CanonQuotMap(st) == LET q == QuotMap(LN(st), LaxPairs(st)) IN FF(q, NumClasses(q))
\* the relation for one quotient() call: pre-state, returned Result, post-state
QuotientRel(pre, o, post) ==
  IF LaxConsistent(pre)
  THEN /\ o.tag = "ok" /\ IsQuotientMap(pre, o.val)
       /\ post = LApplyQuot(pre, o.val.table, o.val.target)
       /\ (LaxIsStrict(pre) => post = pre)                     \* quotienting again changes nothing
  ELSE o.tag = "err" /\ post = pre                             \* a failed quotient leaves the diagram as it was

(* ---- conversions and categorical operations (C10, C02, C04) ---- *)
LaxToPlain(st) == OH(st.nodes, [i \in 1 .. LE(st) |-> Edge(st.edges[i], st.adj[i].s, st.adj[i].t)], st.sources, st.targets)
PlainToLax(p) == [nodes |-> p.w, edges |-> [i \in 1 .. NE(p) |-> p.e[i].l], adj |-> [i \in 1 .. NE(p) |-> HE(p.e[i].s, p.e[i].t)],
                  ql |-> <<>>, qr |-> <<>>, sources |-> p.s, targets |-> p.t]
\* the strict meaning of a (label-consistent) lax diagram
Strictify(st) == QuotientBy(LaxToPlain(st), LaxPairs(st))
LaxSrcType(st) == Thru(st.sources, st.nodes)
LaxTgtType(st) == Thru(st.targets, st.nodes)

ShiftHE(e, k) == HE(Shift(e.s, k), Shift(e.t, k))
LHyperCoproduct(f, g) ==
  [f EXCEPT !.nodes = @ \o g.nodes, !.edges = @ \o g.edges,
            !.adj = @ \o [i \in 1 .. Len(g.adj) |-> ShiftHE(g.adj[i], LN(f))],
            !.ql = @ \o Shift(g.ql, LN(f)), !.qr = @ \o Shift(g.qr, LN(f))]
LTensor(f, g) == [LHyperCoproduct(f, g) EXCEPT !.sources = f.sources \o Shift(g.sources, LN(f)),
                                               !.targets = f.targets \o Shift(g.targets, LN(f))]
LLaxComposeDefined(f, g) == Len(f.targets) = Len(g.sources)
LLaxCompose(f, g) ==
  [LHyperCoproduct(f, g) EXCEPT !.ql = @ \o f.targets, !.qr = @ \o Shift(g.sources, LN(f)),
                                !.sources = f.sources, !.targets = Shift(g.targets, LN(f))]
LComposeDefined(f, g) == LaxTgtType(f) = LaxSrcType(g)
LIdentity(w) == PlainToLax(IdentityRef(w))
LTwist(a, b) == PlainToLax(TwistRef(a, b))
LSpiderDefined(s, t, w) == s.target = Len(w) /\ t.target = Len(w)
LSpider(s, t, w) == PlainToLax(SpiderRef(s.table, t.table, w))
LDagger(f) == [f EXCEPT !.sources = f.targets, !.targets = f.sources]
LaxSingleton(x, a, b) == PlainToLax(SingletonRef(x, a, b))
\* in-place variants
LAppend(f, g) == R([LHyperCoproduct(f, g) EXCEPT !.sources = f.sources, !.targets = f.targets],
                   [s |-> Shift(g.sources, LN(f)), t |-> Shift(g.targets, LN(f))])
=============================================================================
