-------------------------------- MODULE Eval --------------------------------
(***************************************************************************)
(* C16: reference interpreter.  The test signature (shared with            *)
(* harness/src/tables.rs), arithmetic in Z/2^8:                             *)
(*  1 add (n->1)  2 mul (n->1)  3 neg (1->1)  4 copy (1->2)  5 discard (1->0)*)
(*  6 one (0->1)  7 zero (0->1) 8 and (n->1)  9 xor (n->1) 10 not (1->1)     *)
(* 11 copy3 (1->3) 12 swap (2->2) 13 addmul (2->2)                           *)
(* 14 sub 15 div 16 or 17 shl 18 shr (2->1, operators of the Var interface)  *)
(***************************************************************************)
EXTENDS Layering, Bitwise
M == 256
SumM(s) == SumSeq(s) % M
RECURSIVE ProdM(_)
ProdM(s) == IF s = <<>> THEN 1 ELSE (Head(s) * ProdM(Tail(s))) % M
RECURSIVE AndAll(_)
AndAll(s) == IF s = <<>> THEN 255 ELSE Head(s) & AndAll(Tail(s))
RECURSIVE XorAll(_)
XorAll(s) == IF s = <<>> THEN 0 ELSE Head(s) ^^ XorAll(Tail(s))
First(s) == IF s = <<>> THEN 0 ELSE s[1]
Arg(args, i) == IF Len(args) >= i THEN args[i] ELSE 0
RECURSIVE Pow2(_)
Pow2(k) == IF k = 0 THEN 1 ELSE 2 * Pow2(k - 1)
SigLabels == 1 .. 18
Apply(l, args) ==
  CASE l = 1 -> <<SumM(args)>>
    [] l = 2 -> <<ProdM(args)>>
    [] l = 3 -> <<(M - First(args)) % M>>
    [] l = 4 -> <<First(args), First(args)>>
    [] l = 5 -> <<>>
    [] l = 6 -> <<1>>
    [] l = 7 -> <<0>>
    [] l = 8 -> <<AndAll(args)>>
    [] l = 9 -> <<XorAll(args)>>
    [] l = 10 -> <<255 - First(args)>>
    [] l = 11 -> <<First(args), First(args), First(args)>>
    [] l = 12 -> <<IF Len(args) >= 2 THEN args[2] ELSE 0, First(args)>>
    [] l = 13 -> <<SumM(args), ProdM(args)>>
    \* the remaining binary operators of the Var interface (operand order matters for some of them)
    [] l = 14 -> <<(Arg(args, 1) - Arg(args, 2) + M) % M>>                                   \* sub
    [] l = 15 -> <<IF Arg(args, 2) = 0 THEN 0 ELSE Arg(args, 1) \div Arg(args, 2)>>           \* div (0 when dividing by 0)
    [] l = 16 -> <<Arg(args, 1) | Arg(args, 2)>>                                              \* or
    [] l = 17 -> <<(Arg(args, 1) * Pow2(Arg(args, 2) % 8)) % M>>                              \* shl
    [] l = 18 -> <<Arg(args, 1) \div Pow2(Arg(args, 2) % 8)>>                                 \* shr
Arity(l) == CASE l \in {1, 2, 8, 9, 12, 13, 14, 15, 16, 17, 18} -> 2 [] l \in {3, 4, 5, 10, 11} -> 1 [] l \in {6, 7} -> 0
Coarity(l) == CASE l \in {1, 2, 3, 6, 7, 8, 9, 10, 14, 15, 16, 17, 18} -> 1 [] l \in {4, 12, 13} -> 2 [] l = 5 -> 0 [] l = 11 -> 3

DepAcyclic(f) == OnCycle(Dep(f)) = {}
\* every node written at most once: by one hyperedge target position or by one input position
SingleWriter(f) == \A v \in Range0(NN(f)) : Count(AllTargets(f), v) + Count(f.s, v) <= 1
PosIn(s, v) == CHOOSE i \in 1 .. Len(s) : s[i] = v
\* variable hyperedges (label 0) read as copies: every output repeats the (first) input
AppMode(mode, e, args) == IF mode = "var" /\ e.l = 0 THEN [j \in 1 .. Len(e.t) |-> First(args)] ELSE Apply(e.l, args)
\* value of node v: recursive on the dependency DAG.  A node nobody writes holds the default 0.
RECURSIVE ValG(_, _, _, _)
ValG(f, x, v, mode) ==
  IF \E i \in 1 .. Len(f.s) : f.s[i] = v THEN x[PosIn(f.s, v)]
  ELSE IF \E k \in 1 .. NE(f) : \E j \in 1 .. Len(f.e[k].t) : f.e[k].t[j] = v
       THEN LET k == CHOOSE k \in 1 .. NE(f) : \E j \in 1 .. Len(f.e[k].t) : f.e[k].t[j] = v
                e == f.e[k]
            IN AppMode(mode, e, [j \in 1 .. Len(e.s) |-> ValG(f, x, e.s[j], mode)])[PosIn(e.t, v)]
       ELSE 0
Val(f, x, v) == ValG(f, x, v, "std")
EvalRef(f, x) == [i \in 1 .. Len(f.t) |-> Val(f, x, f.t[i])]
\* the (label, inputs) pairs every hyperedge is interpreted on
EdgeCalls(f, x) == [k \in 1 .. NE(f) |-> [l |-> f.e[k].l, args |-> [j \in 1 .. Len(f.e[k].s) |-> Val(f, x, f.e[k].s[j])]]]
EvalVarRef(f, x) == [i \in 1 .. Len(f.t) |-> ValG(f, x, f.t[i], "var")]
\* diagrams over the signature: arities respected
Typed(f) == \A k \in 1 .. NE(f) : f.e[k].l \in SigLabels /\ Len(f.e[k].s) = Arity(f.e[k].l) /\ Len(f.e[k].t) = Coarity(f.e[k].l)
=============================================================================
