------------------------------- MODULE Emit -------------------------------
(* Emission of generated cases from inside an action: no history variable. *)
EXTENDS TLC, Json
EmitCase(op, props, args) == PrintT(<<"T", ToJson([op |-> op, props |-> props, args |-> args])>>)
=============================================================================
