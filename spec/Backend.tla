------------------------------ MODULE Backend ------------------------------
(***************************************************************************)
(* C20: the array primitives whose contract leaves a choice open, as        *)
(* *sets of admissible answers*, and the library's algorithms that consume   *)
(* them, transcribed so that the choice is an explicit parameter.  TLC       *)
(* explores every resolution of every choice for small inputs                *)
(* (spec/mc/MC_C20.tla); the invariant is that each final result satisfies   *)
(* the operation's relation whatever the backend chose.                      *)
(***************************************************************************)
EXTENDS Domains

\* all sorting permutations of a key array (tie order open)
Argsorts(key) == {p \in [1 .. Len(key) -> Range0(Len(key))] : ArgsortOK(key, p)}
\* all admissible component labellings (numbering of components open)
Labelings(n, pairs) ==
  LET k == NumClasses(QuotMap(n, pairs)) IN
  {q \in [1 .. n -> Range0(k)] : RangeOf(q) = Range0(k) /\ \A a, b \in Range0(n) : (q[a + 1] = q[b + 1]) <=> Connected(n, pairs, a, b)}
\* all admissible scatter results (filler and duplicate resolution open); the filler comes from the array itself
Scatters(a, idx, n) == {out \in [1 .. n -> RangeOf(a)] : ScatterOK(a, idx, n, out)}
\* all admissible sparse bincounts (key order open): a permutation of the occurring values
KeyOrders(a) == {ks \in [1 .. Cardinality(RangeOf(a)) -> RangeOf(a)] : RangeOf(ks) = RangeOf(a)}

\* converse, as the library computes it: repeat ids by segment size, sort by the values with *some* argsort
ConverseWith(segs, m, p) ==
  LET vals == FlatSeq(segs)
      ids == Repeat([i \in 1 .. Len(segs) |-> Len(segs[i])], Arange(0, Len(segs)))
      sorted == Gather(ids, p)
  IN SplitBy(Bincount(vals, m), sorted)
\* composition, as the library computes it, with *some* coequalizer q and *some* scatter for the labels
ComposeWith(f, g, q, w) ==
  LET h == TensorRef(f, g) IN
  OH(w, [i \in 1 .. NE(h) |-> MapE(h.e[i], q)], Thru(f.s, q), Thru(Shift(g.t, NN(f)), q))
\* one level of Kahn with the sparse keys in *some* order: the new frontier as a sequence
FrontierWith(adj, indeg2, unv2, keyorder) == SelectSeq(keyorder, LAMBDA v : indeg2[v + 1] = 0 /\ unv2[v + 1] = 1)
=============================================================================
