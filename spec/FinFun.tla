------------------------------ MODULE FinFun ------------------------------
(***************************************************************************)
(* C06: finite functions [table |-> seq of values, target |-> n]; the       *)
(* source is Len(table).  Every named operation with its set-theoretic     *)
(* meaning; optional results are tagged records.                           *)
(***************************************************************************)
EXTENDS Arrays

FF(tbl, tgt) == [table |-> tbl, target |-> tgt]
Src(f) == Len(f.table)
WFFF(f) == f.target \in Nat /\ \A i \in 1 .. Len(f.table) : f.table[i] \in Range0(f.target)
Some(v) == [tag |-> "some", val |-> v]
None == [tag |-> "none"]

\* checked constructor: accepted iff every entry is below the target
FFNewAccepts(tbl, tgt) == \A i \in 1 .. Len(tbl) : tbl[i] < tgt

FIdentity(n) == FF(Arange(0, n), n)
FComposable(f, g) == f.target = Src(g)
FCompose(f, g) == FF(Gather(g.table, f.table), g.target)
FInitial(a) == FF(<<>>, a)
FTerminal(a) == FF(Fill(0, a), 1)
FConstant(a, x, b) == FF(Fill(x, a), x + b + 1)
FInj0(a, b) == FF(Arange(0, a), a + b)
FInj1(a, b) == FF(Arange(a, a + b), a + b)
FInject0(f, b) == FF(f.table, f.target + b)
FInject1(f, a) == FF(AddConst(a, f.table), a + f.target)
FCoproductDefined(f, g) == f.target = g.target
FCoproduct(f, g) == FF(f.table \o g.table, f.target)
FTensor(f, g) == FF(f.table \o AddConst(f.target, g.table), f.target + g.target)
FTwist(a, b) == FF(Arange(b, a + b) \o Arange(0, b), a + b)
\* transposition of an a x b matrix index: i |-> (i mod a) * b + (i div a)
FTranspose(a, b) == IF a = 0 THEN FF(<<>>, 0)
                    ELSE FF([k \in 1 .. a * b |-> ((k - 1) % a) * b + ((k - 1) \div a)], a * b)
FCumulativeSum(f) == LET p == PrefixSums(f.table) IN FF(SubSeq(p, 1, Len(f.table)), p[Len(p)])
FIsInjective(f) == IsInjectiveSeq(f.table)
FToInitial(f) == FInitial(f.target)

\* block-wise injections: s : N -> K gives block sizes, a : A -> N selects blocks;
\* result : sum_{x in A} s(a(x)) -> sum_n s(n), block x sent to block a(x)
FInjectionsDefined(s, a) == a.target = Src(s)
FInjections(s, a) ==
  LET p == PrefixSums(s.table)
  IN FF(FlatSeq([x \in 1 .. Src(a) |-> [j \in 1 .. s.table[a.table[x] + 1] |-> p[a.table[x] + 1] + j - 1]]),
        p[Len(p)])

(* ---- coequalizer: any surjection identifying exactly the linked elements ---- *)
FParallel(f, g) == Src(f) = Src(g) /\ f.target = g.target
IsCoequalizer(f, g, q) ==
  /\ Src(q) = f.target
  /\ RangeOf(q.table) = Range0(q.target)                          \* surjective, dense numbering
  /\ LET pairs == EdgePairs(f.table, g.table) IN
     \A a, b \in Range0(f.target) : (q.table[a + 1] = q.table[b + 1]) <=> Connected(f.target, pairs, a, b)
CanonCoequalizer(f, g) == LET q == QuotMap(f.target, EdgePairs(f.table, g.table)) IN FF(q, NumClasses(q))

\* universal map of a surjection q for a label array h (any element type):
\* exists iff h is constant on the fibres of q
ConstOnFibres(q, h) == \A i, j \in 1 .. Len(h) : q.table[i] = q.table[j] => h[i] = h[j]
UniversalDefined(q, h) == Src(q) = Len(h) /\ ConstOnFibres(q, h)
\* u is a universal map: q ; u = h.  (positions of u outside the image of q are unconstrained)
IsUniversal(q, h, u) == Len(u) = q.target /\ \A i \in 1 .. Len(h) : u[q.table[i] + 1] = h[i]
CanonUniversal(q, h) == [c \in 1 .. q.target |-> h[CHOOSE i \in 1 .. Len(h) : q.table[i] = c - 1]]

(* ---- semifinite functions (label arrays) and the category of finite/semifinite arrows ---- *)
\* arrows: [kind |-> "identity"] | [kind |-> "finite", f |-> FF] | [kind |-> "semifinite", labels |-> seq]
\* objects: [kind |-> "finite", n |-> k] | [kind |-> "set"]
SFASource(x) == CASE x.kind = "finite" -> [kind |-> "finite", n |-> Src(x.f)]
                  [] x.kind = "semifinite" -> [kind |-> "finite", n |-> Len(x.labels)]
                  [] OTHER -> [kind |-> "set"]
SFATarget(x) == IF x.kind = "finite" THEN [kind |-> "finite", n |-> x.f.target] ELSE [kind |-> "set"]
\* composition is defined exactly for finite ; finite and finite ; semifinite with matching middle object
SFAComposeDefined(x, y) == x.kind = "finite" /\ ((y.kind = "finite" /\ FComposable(x.f, y.f)) \/ (y.kind = "semifinite" /\ x.f.target = Len(y.labels)))
SFACompose(x, y) == IF y.kind = "finite" THEN [kind |-> "finite", f |-> FCompose(x.f, y.f)]
                    ELSE [kind |-> "semifinite", labels |-> Thru(x.f.table, y.labels)]
SFAIdentity(o) == IF o.kind = "finite" THEN [kind |-> "finite", f |-> FIdentity(o.n)] ELSE [kind |-> "identity"]
=============================================================================
