----------------------------- MODULE Segmented -----------------------------
(***************************************************************************)
(* C08: segmented arrays (IndexedCoproduct).  Representation               *)
(*   [sources |-> FF(sizes, sum+1), values |-> FF(...) | label sequence]    *)
(* denotes the list of consecutive slices of the value array.  Two kinds:  *)
(* "ff" (values is a finite function) and "sf" (values is a label array).   *)
(***************************************************************************)
EXTENDS FinFun

IC(src, vals) == [sources |-> src, values |-> vals]
Sizes(ic) == ic.sources.table
NumSegs(ic) == Len(ic.sources.table)

ValLenFF(ic) == Len(ic.values.table)
ValLenSF(ic) == Len(ic.values)
SegsFF(ic) == SplitBy(Sizes(ic), ic.values.table)
SegsSF(ic) == SplitBy(Sizes(ic), ic.values)

\* the representation invariant
SizesOK(sizes, srcTarget, vlen) == srcTarget = SumSeq(sizes) + 1 /\ SumSeq(sizes) = vlen
WFSegFF(ic) == SizesOK(Sizes(ic), ic.sources.target, ValLenFF(ic)) /\ WFFF(ic.values)
WFSegSF(ic) == SizesOK(Sizes(ic), ic.sources.target, ValLenSF(ic))

\* canonical packing of a list of lists
PackFF(segs, tgt) == LET flat == FlatSeq(segs) IN
    IC(FF([i \in 1 .. Len(segs) |-> Len(segs[i])], Len(flat) + 1), FF(flat, tgt))
PackSF(segs) == LET flat == FlatSeq(segs) IN
    IC(FF([i \in 1 .. Len(segs) |-> Len(segs[i])], Len(flat) + 1), flat)

\* checked constructors
ICNewAccepts(src, vlen) == SizesOK(src.table, src.target, vlen)
\* from_semifinite(sizes, values): sizes is a plain array; target is set to len(values)+1
ICFromSemifiniteAccepts(sizes, vlen) == SumSeq(sizes) = vlen

(* ---- list-of-lists meaning of every operation ---- *)
LSingleton(v) == <<v>>
LElements(v) == [i \in 1 .. Len(v) |-> <<v[i]>>]
LCoproduct(A, B) == A \o B
LTensorFF(A, B, ta) == A \o [i \in 1 .. Len(B) |-> Shift(B[i], ta)]
LMapIndexes(A, x) == [i \in 1 .. Len(x) |-> A[x[i] + 1]]
LMapValues(A, tbl) == [i \in 1 .. Len(A) |-> Thru(A[i], tbl)]
LFlatmap(A, B) == [i \in 1 .. Len(A) |-> FlatSeq([j \in 1 .. Len(A[i]) |-> B[A[i][j] + 1]])]
\* flatmap_sources: position p of A's flat value array owns segment p of B
LFlatmapSources(sizesA, B) ==
   LET grp == SplitBy(sizesA, [p \in 1 .. Len(B) |-> p])
   IN [i \in 1 .. Len(sizesA) |-> FlatSeq([j \in 1 .. Len(grp[i]) |-> B[grp[i][j]]])]

(* ---- iterator machine (history property) ---- *)
\* state: [segs, idx]; next() yields segs[idx+1] and advances; len() reports what is left
IterInit(segs) == [segs |-> segs, idx |-> 0]
IterRemaining(it) == Len(it.segs) - it.idx
IterNextItem(it) == IF it.idx < Len(it.segs) THEN Some(it.segs[it.idx + 1]) ELSE None
IterAdvance(it) == IF it.idx < Len(it.segs) THEN [it EXCEPT !.idx = @ + 1] ELSE it

(* ---- operation batches ---- *)
OpsNewAccepts(x, a, b) == Len(x) = NumSegs(a) /\ Len(x) = NumSegs(b)
OpsTriples(ops) == LET sa == SegsSF(ops.a)  sb == SegsSF(ops.b) IN
    [i \in 1 .. Len(ops.x) |-> [x |-> ops.x[i], a |-> sa[i], b |-> sb[i]]]
=============================================================================
