//! `ohv`: conformance harness binding the TLA+ specification under /verif/spec to the
//! `open-hypergraphs` library.
//!
//! * `ohv exec`  : reads generated cases (one JSON object per line: `{op, props, args, ...}`),
//!   performs the one public call named by `op` on the real library under `catch_unwind`, and
//!   writes the case back with an `obs` field (what was observed).  It computes no expected values.
//! * `ohv drive` : seeded random driver; produces recordings of longer histories and larger
//!   inputs in the same event format (no predictions; the specification alone decides).
mod adv;
mod codec;
mod drive;
mod lax_ops;
mod rng;
mod strict_ops;
mod tables;
mod var_ops;

use serde_json::{json, Value};
use std::io::{BufRead, BufWriter, Write};
use std::panic::{catch_unwind, AssertUnwindSafe};

thread_local! {
    static LAST_PANIC: std::cell::RefCell<Option<String>> = const { std::cell::RefCell::new(None) };
}

fn install_panic_hook() {
    std::panic::set_hook(Box::new(|info| {
        let loc = info
            .location()
            .map(|l| {
                let f = l.file();
                // keep only the path inside the repository, so messages are stable across checkouts
                let f = f.rsplit_once("/src/").map(|(_, b)| format!("src/{}", b)).unwrap_or(f.to_string());
                format!("{}:{}", f, l.line())
            })
            .unwrap_or_default();
        let msg = if let Some(s) = info.payload().downcast_ref::<&str>() {
            s.to_string()
        } else if let Some(s) = info.payload().downcast_ref::<String>() {
            s.clone()
        } else {
            "panic".to_string()
        };
        LAST_PANIC.with(|p| *p.borrow_mut() = Some(format!("{} @ {}", msg, loc)));
    }));
}

/// Run one call; a panic is data.
pub fn guarded<F: FnOnce() -> Value>(f: F) -> Value {
    LAST_PANIC.with(|p| *p.borrow_mut() = None);
    match catch_unwind(AssertUnwindSafe(f)) {
        Ok(v) => v,
        Err(_) => {
            let msg = LAST_PANIC.with(|p| p.borrow_mut().take()).unwrap_or_else(|| "panic".into());
            let msg: String = msg.chars().take(200).collect();
            json!({"tag": "panic", "msg": msg})
        }
    }
}

pub fn dispatch(op: &str, backend: &str, args: &Value) -> Value {
    if op.starts_with("lax.") || op.starts_with("var.") || op.starts_with("laxf.") {
        return guarded(|| lax_ops::run(op, args));
    }
    match backend {
        "adv" => {
            let seed = args.get("advseed").and_then(|v| v.as_u64()).unwrap_or(1);
            adv::set_seed(seed);
            guarded(|| strict_ops::adv::run(op, args))
        }
        _ => guarded(|| strict_ops::vec::run(op, args)),
    }
}

const TRAIT_FORMS: [&str; 7] = ["strict.source", "strict.target", "strict.identity", "strict.spider", "lax.identity", "lax.spider", "lax.tensor"];

const DERIVED: [(&str, &str); 10] = [
    ("ff.source", "ff.clone"),
    ("sf.len", "sf.clone"),
    ("sf.len", "sf.is_zero"),
    ("sf.coproduct", "sf.eq"),
    ("ic.len_ff", "ic.clone_ff"),
    ("ic.map_indexes_sf", "ic.clone_sf"),
    ("ic.coproduct_ff", "ic.eq_ff"),
    ("ic.coproduct_sf", "ic.eq_sf"),
    ("hyper.is_discrete", "hyper.clone"),
    ("strict.source", "strict.clone"),
];

fn cmd_exec() {
    let stdin = std::io::stdin();
    let stdout = std::io::stdout();
    let mut out = BufWriter::new(stdout.lock());
    let profile = if cfg!(debug_assertions) { "debug" } else { "release" };
    for line in stdin.lock().lines() {
        let line = line.expect("read");
        let line = line.trim();
        if line.is_empty() {
            continue;
        }
        let mut ev: Value = match serde_json::from_str(line) {
            Ok(v) => v,
            Err(e) => {
                eprintln!("ohv: bad input line: {}", e);
                std::process::exit(2);
            }
        };
        let op = ev["op"].as_str().unwrap_or("").to_string();
        let backend = ev.get("backend").and_then(|b| b.as_str()).unwrap_or("vec").to_string();
        let obs = dispatch(&op, &backend, &ev["args"]);
        ev["obs"] = obs;
        ev["profile"] = json!(profile);
        if ev.get("backend").is_none() {
            ev["backend"] = json!("vec");
        }
        serde_json::to_writer(&mut out, &ev).unwrap();
        out.write_all(b"\n").unwrap();
        // operations that exist both as an inherent method and as a method of a categorical trait:
        // the same case is also performed through the trait (judged by the same relation)
        if TRAIT_FORMS.contains(&op.as_str()) && ev["args"].get("pre").is_none() {
            let top = format!("{}_trait", op);
            ev["obs"] = dispatch(&top, &backend, &ev["args"]);
            ev["op"] = json!(top);
            serde_json::to_writer(&mut out, &ev).unwrap();
            out.write_all(b"\n").unwrap();
        }
        // hand-written Clone / PartialEq impls, performed on the arguments of a case that carries them
        for (base, derived) in DERIVED.iter() {
            if *base == op {
                ev["obs"] = dispatch(derived, &backend, &ev["args"]);
                ev["op"] = json!(derived);
                serde_json::to_writer(&mut out, &ev).unwrap();
                out.write_all(b"\n").unwrap();
            }
        }
    }
    out.flush().unwrap();
}

fn main() {
    install_panic_hook();
    let args: Vec<String> = std::env::args().collect();
    match args.get(1).map(|s| s.as_str()) {
        Some("exec") => cmd_exec(),
        Some("drive") => drive::main(&args[2..]),
        _ => {
            eprintln!("usage: ohv exec < cases.ndjson > obs.ndjson | ohv drive --machine M --seed S --budget N");
            std::process::exit(2);
        }
    }
}
