//! Table-driven interpreter of `op` names for the array / finite-function / segmented-array /
//! strict (open) hypergraph API, instantiated once per array backend.
//! The projection to JSON reads public fields only; no expected values are computed here.

macro_rules! strict_backend {
    ($modname:ident, $K:ty, $Arr:ident, $arrpath:path) => {
        pub mod $modname {
            #![allow(dead_code, unused_imports, clippy::all)]
            use crate::codec::*;
            use crate::tables;
            use open_hypergraphs::array::*;
            use open_hypergraphs::category::*;
            use open_hypergraphs::finite_function::{self, FiniteFunction};
            use open_hypergraphs::indexed_coproduct::{HasLen, IndexedCoproduct};
            use open_hypergraphs::operations::Operations;
            use open_hypergraphs::semifinite::SemifiniteFunction;
            use open_hypergraphs::strict::functor::Functor;
            use open_hypergraphs::strict::hypergraph::arrow::{HypergraphArrow, InvalidHypergraphArrow};
            use open_hypergraphs::strict::hypergraph::{Hypergraph, InvalidHypergraph};
            use open_hypergraphs::strict::open_hypergraph::{InvalidOpenHypergraph, OpenHypergraph};
            use serde_json::{json, Value};
            use $arrpath;

            pub type K = $K;
            pub type FF = FiniteFunction<K>;
            pub type SF<T> = SemifiniteFunction<K, T>;
            pub type ICF = IndexedCoproduct<K, FF>;
            pub type ICS<T> = IndexedCoproduct<K, SF<T>>;
            pub type HG = Hypergraph<K, O, A>;
            pub type OH = OpenHypergraph<K, O, A>;
            pub type OPS = Operations<K, O, A>;

            // ------------------------------------------------------------ decoding
            pub fn idx(v: &Value) -> $Arr<usize> {
                $Arr(vec_us(v))
            }
            pub fn ff(v: &Value) -> FF {
                FiniteFunction { table: idx(&v["table"]), target: us(&v["target"]) }
            }
            pub fn sf_o(v: &Value) -> SF<O> {
                SemifiniteFunction($Arr(vec_o(v)))
            }
            pub fn sf_a(v: &Value) -> SF<A> {
                SemifiniteFunction($Arr(vec_a(v)))
            }
            /// segmented arrays are `non_exhaustive`: build a valid one, then assign the public fields
            pub fn icf(v: &Value) -> ICF {
                let mut x = ICF::initial(0);
                x.sources = ff(&v["sources"]);
                x.values = ff(&v["values"]);
                x
            }
            pub fn ics_o(v: &Value) -> ICS<O> {
                let mut x = ICS::<O>::singleton(SemifiniteFunction($Arr(vec![])));
                x.sources = ff(&v["sources"]);
                x.values = sf_o(&v["values"]);
                x
            }
            pub fn hg(v: &Value) -> HG {
                Hypergraph { s: icf(&v["s"]), t: icf(&v["t"]), w: sf_o(&v["w"]), x: sf_a(&v["x"]) }
            }
            pub fn oh(v: &Value) -> OH {
                OpenHypergraph { s: ff(&v["s"]), t: ff(&v["t"]), h: hg(&v["h"]) }
            }
            pub fn ops(v: &Value) -> OPS {
                let mut o = Operations::singleton(A(0), sf_o(&json!([])), sf_o(&json!([])));
                o.x = sf_a(&v["x"]);
                o.a = ics_o(&v["a"]);
                o.b = ics_o(&v["b"]);
                o
            }

            // ------------------------------------------------------------ encoding
            pub fn o_idx(a: &$Arr<usize>) -> Value {
                out_us(&a.0)
            }
            pub fn o_ff(f: &FF) -> Value {
                json!({"table": o_idx(&f.table), "target": nat(f.target)})
            }
            pub fn o_sf_o(f: &SF<O>) -> Value {
                json!(f.0 .0)
            }
            pub fn o_sf_a(f: &SF<A>) -> Value {
                out_a(&f.0 .0)
            }
            pub fn o_icf(x: &ICF) -> Value {
                json!({"sources": o_ff(&x.sources), "values": o_ff(&x.values)})
            }
            pub fn o_ics_o(x: &ICS<O>) -> Value {
                json!({"sources": o_ff(&x.sources), "values": o_sf_o(&x.values)})
            }
            pub fn o_hg(h: &HG) -> Value {
                json!({"s": o_icf(&h.s), "t": o_icf(&h.t), "w": o_sf_o(&h.w), "x": o_sf_a(&h.x)})
            }
            pub fn o_oh(f: &OH) -> Value {
                json!({"s": o_ff(&f.s), "t": o_ff(&f.t), "h": o_hg(&f.h)})
            }
            pub fn o_ops(o: &OPS) -> Value {
                json!({"x": o_sf_a(&o.x), "a": o_ics_o(&o.a), "b": o_ics_o(&o.b)})
            }
            fn hg_err(e: &InvalidHypergraph<K>) -> &'static str {
                match e {
                    InvalidHypergraph::SourcesCount(..) => "SourcesCount",
                    InvalidHypergraph::TargetsCount(..) => "TargetsCount",
                    InvalidHypergraph::SourcesSet(..) => "SourcesSet",
                    InvalidHypergraph::TargetsSet(..) => "TargetsSet",
                }
            }
            fn oh_err(e: &InvalidOpenHypergraph<K>) -> &'static str {
                match e {
                    InvalidOpenHypergraph::CospanSourceType(..) => "CospanSourceType",
                    InvalidOpenHypergraph::CospanTargetType(..) => "CospanTargetType",
                    InvalidOpenHypergraph::InvalidHypergraph(h) => hg_err(h),
                }
            }
            fn arrow_err(e: &InvalidHypergraphArrow) -> &'static str {
                match e {
                    InvalidHypergraphArrow::TypeMismatchW => "TypeMismatchW",
                    InvalidHypergraphArrow::TypeMismatchX => "TypeMismatchX",
                    InvalidHypergraphArrow::NotNaturalW => "NotNaturalW",
                    InvalidHypergraphArrow::NotNaturalX => "NotNaturalX",
                    InvalidHypergraphArrow::NotNaturalS => "NotNaturalS",
                    InvalidHypergraphArrow::NotNaturalT => "NotNaturalT",
                }
            }
            fn range_form<T: Clone>(a: &$Arr<T>, r: &Value) -> Vec<T> {
                let form = r["form"].as_str().unwrap();
                match form {
                    "full" => a.get_range(..).to_vec(),
                    "from" => a.get_range(us(&r["a"])..).to_vec(),
                    "to" => a.get_range(..us(&r["b"])).to_vec(),
                    "range" => a.get_range(us(&r["a"])..us(&r["b"])).to_vec(),
                    "toinc" => a.get_range(..=us(&r["b"])).to_vec(),
                    _ => panic!("harness: unknown range form"),
                }
            }

            /// the strict empty diagram, built through the public API
            pub fn empty_oh() -> OH {
                OH::identity(SemifiniteFunction($Arr(vec![])))
            }

            // ------------------------------------------------------------ table-driven functor
            pub struct TableFunctor {
                pub t: tables::FunctorTable,
            }
            impl Functor<K, O, A, O, A> for TableFunctor {
                fn map_object(&self, a: &SF<O>) -> ICS<O> {
                    let mut sizes = vec![];
                    let mut values = vec![];
                    for o in a.0 .0.iter() {
                        let img = self.t.obj(*o);
                        sizes.push(img.len());
                        values.extend(img.iter().cloned());
                    }
                    ICS::<O>::from_semifinite(SemifiniteFunction($Arr(sizes)), SemifiniteFunction($Arr(values)))
                        .expect("harness: functor object table")
                }
                fn map_operations(&self, ops: OPS) -> OH {
                    let mut acc = empty_oh();
                    let a: Vec<SF<O>> = ops.a.clone().into_iter().collect();
                    let b: Vec<SF<O>> = ops.b.clone().into_iter().collect();
                    for (i, x) in ops.x.0 .0.iter().enumerate() {
                        let img = self.t.op(*x, &a[i].0 .0, &b[i].0 .0);
                        acc = acc.tensor(&oh(img));
                    }
                    acc
                }
                fn map_arrow(&self, f: &OH) -> OH {
                    open_hypergraphs::strict::functor::define_map_arrow(self, f)
                }
            }

            // ------------------------------------------------------------ evaluation interpreter
            /// the callback handed to `eval`: interprets one batch, logging it
            pub fn eval_logged(f: &OH, inputs: Vec<u8>) -> (Option<Vec<u8>>, Vec<Value>) {
                use std::cell::RefCell;
                let log: RefCell<Vec<Value>> = RefCell::new(vec![]);
                let r = open_hypergraphs::strict::eval::eval::<K, O, A, u8>(f, $Arr(inputs), |labels: SF<A>, args: ICS<u8>| {
                    let segs: Vec<SF<u8>> = args.clone().into_iter().collect();
                    let mut sizes = vec![];
                    let mut flat = vec![];
                    let mut entry = vec![];
                    for (l, a) in labels.0 .0.iter().zip(segs.iter()) {
                        let out = tables::apply_op(l.0, &a.0 .0);
                        entry.push(json!({"l": l.0, "args": a.0 .0.clone()}));
                        sizes.push(out.len());
                        flat.extend(out);
                    }
                    log.borrow_mut().push(Value::Array(entry));
                    ICS::<u8>::from_semifinite(SemifiniteFunction($Arr(sizes)), SemifiniteFunction($Arr(flat)))
                        .expect("harness: interpreter output")
                });
                (r.map(|a| a.0), log.into_inner())
            }

            // ------------------------------------------------------------ dispatch
            fn iter_views(op: &str, a: &Value) -> Value {
                // the slice views exist for the Vec backend only; go through Vec values
                use open_hypergraphs::array::vec::{VecArray, VecKind};
                type VS = IndexedCoproduct<VecKind, SemifiniteFunction<VecKind, O>>;
                fn vics(v: &Value) -> VS {
                    let mut x = VS::singleton(SemifiniteFunction(VecArray(vec![])));
                    x.sources = FiniteFunction { table: VecArray(vec_us(&v["sources"]["table"])), target: us(&v["sources"]["target"]) };
                    x.values = SemifiniteFunction(VecArray(vec_o(&v["values"])));
                    x
                }
                match op {
                    "ic.iter_slices" => val(json!(vics(&a["ic"]).iter().map(|s| s.to_vec()).collect::<Vec<_>>())),
                    _ => {
                        let v = &a["ops"];
                        let mut o = Operations::<VecKind, O, A>::singleton(A(0), SemifiniteFunction(VecArray(vec![])), SemifiniteFunction(VecArray(vec![])));
                        o.x = SemifiniteFunction(VecArray(vec_a(&v["x"])));
                        o.a = vics(&v["a"]);
                        o.b = vics(&v["b"]);
                        val(Value::Array(o.iter().map(|(x, a, b)| json!({"x": x.0, "a": a, "b": b})).collect()))
                    }
                }
            }

            pub fn run(op: &str, a: &Value) -> Value {
                match op {
                    // ======================================================= arrays (C07)
                    "arr.gather" => val(o_idx(&idx(&a["a"]).gather(&vec_us(&a["idx"])))),
                    "arr.gather_s" => val(json!($Arr(vec_s(&a["a"])).gather(&vec_us(&a["idx"])).0)),
                    "arr.scatter" => val(o_idx(&idx(&a["a"]).scatter(&vec_us(&a["idx"]), us(&a["n"])))),
                    "arr.scatter_s" => val(json!($Arr(vec_s(&a["a"])).scatter(&vec_us(&a["idx"]), us(&a["n"])).0)),
                    "arr.scatter_assign" => {
                        let mut x = idx(&a["a"]);
                        x.scatter_assign(&idx(&a["idx"]), idx(&a["vals"]));
                        val(o_idx(&x))
                    }
                    "arr.scatter_assign_constant" => {
                        let mut x = idx(&a["a"]);
                        x.scatter_assign_constant(&idx(&a["idx"]), us(&a["c"]));
                        val(o_idx(&x))
                    }
                    "arr.scatter_sub_assign" => {
                        let mut x = idx(&a["a"]);
                        x.scatter_sub_assign(&idx(&a["idx"]), &idx(&a["rhs"]));
                        val(o_idx(&x))
                    }
                    "arr.concatenate" => val(o_idx(&idx(&a["a"]).concatenate(&idx(&a["b"])))),
                    "arr.concatenate_s" => val(json!($Arr(vec_s(&a["a"])).concatenate(&$Arr(vec_s(&a["b"]))).0)),
                    "arr.fill" => val(o_idx(&<$Arr<usize> as Array<K, usize>>::fill(us(&a["x"]), us(&a["n"])))),
                    "arr.fill_s" => val(json!(<$Arr<String> as Array<K, String>>::fill(a["x"].as_str().unwrap().to_string(), us(&a["n"])).0)),
                    "arr.empty" => val(o_idx(&<$Arr<usize> as Array<K, usize>>::empty())),
                    "arr.len" => val(nat(Array::<K, usize>::len(&idx(&a["a"])))),
                    "arr.is_empty" => val(json!(Array::<K, usize>::is_empty(&idx(&a["a"])))),
                    "arr.get" => val(nat(Array::<K, usize>::get(&idx(&a["a"]), us(&a["i"])))),
                    "arr.from_slice" => val(o_idx(&<$Arr<usize> as Array<K, usize>>::from_slice(&vec_us(&a["a"])))),
                    "arr.to_range" => {
                        let x = <$Arr<usize> as Array<K, usize>>::fill(0, us(&a["n"]));
                        let r = &a["r"];
                        let rr = match r["form"].as_str().unwrap() {
                            "full" => x.to_range(..),
                            "from" => x.to_range(us(&r["a"])..),
                            "to" => x.to_range(..us(&r["b"])),
                            "range" => x.to_range(us(&r["a"])..us(&r["b"])),
                            "toinc" => x.to_range(..=us(&r["b"])),
                            _ => panic!("harness: unknown range form"),
                        };
                        val(json!([rr.start, rr.end]))
                    }
                    "arr.get_range" => val(out_us(&range_form(&idx(&a["a"]), &a["r"]))),
                    "arr.get_range_s" => val(json!(range_form(&$Arr(vec_s(&a["a"])), &a["r"]))),
                    "arr.set_range" => {
                        let mut x = idx(&a["a"]);
                        let v = idx(&a["v"]);
                        let r = &a["r"];
                        match r["form"].as_str().unwrap() {
                            "full" => x.set_range(.., &v),
                            "from" => x.set_range(us(&r["a"]).., &v),
                            "to" => x.set_range(..us(&r["b"]), &v),
                            "range" => x.set_range(us(&r["a"])..us(&r["b"]), &v),
                            "toinc" => x.set_range(..=us(&r["b"]), &v),
                            _ => panic!("harness: unknown range form"),
                        };
                        val(o_idx(&x))
                    }
                    "arr.arange" => val(o_idx(&<$Arr<usize> as NaturalArray<K>>::arange(&us(&a["lo"]), &us(&a["hi"])))),
                    "arr.cumulative_sum" => val(o_idx(&idx(&a["a"]).cumulative_sum())),
                    "arr.sum" => val(nat(idx(&a["a"]).sum())),
                    "arr.max" => opt(idx(&a["a"]).max().map(nat)),
                    "arr.segmented_sum" => val(o_idx(&idx(&a["sizes"]).segmented_sum(&idx(&a["x"])))),
                    "arr.repeat" => val(o_idx(&idx(&a["counts"]).repeat(&vec_us(&a["x"])))),
                    "arr.segmented_arange" => val(o_idx(&idx(&a["sizes"]).segmented_arange())),
                    "arr.quot_rem" => {
                        let (q, r) = idx(&a["a"]).quot_rem(us(&a["d"]));
                        val(json!({"q": o_idx(&q), "r": o_idx(&r)}))
                    }
                    "arr.mul_constant_add" => val(o_idx(&idx(&a["a"]).mul_constant_add(us(&a["c"]), &idx(&a["x"])))),
                    "arr.add" => val(o_idx(&(idx(&a["a"]) + idx(&a["b"])))),
                    "arr.sub" => val(o_idx(&(idx(&a["a"]) - idx(&a["b"])))),
                    "arr.add_const" => val(o_idx(&(us(&a["c"]) + &idx(&a["a"])))),
                    "arr.argsort" => val(o_idx(&idx(&a["a"]).argsort())),
                    "arr.argsort_s" => val(o_idx(&$Arr(vec_s(&a["a"])).argsort())),
                    "arr.sort_by" => val(o_idx(&idx(&a["vals"]).sort_by(&idx(&a["key"])))),
                    "arr.bincount" => val(o_idx(&idx(&a["a"]).bincount(us(&a["size"])))),
                    "arr.sparse_bincount" => {
                        let (k, c) = idx(&a["a"]).sparse_bincount();
                        val(json!({"keys": o_idx(&k), "counts": o_idx(&c)}))
                    }
                    "arr.zero" => val(o_idx(&idx(&a["a"]).zero())),
                    "arr.connected_components" => {
                        let (l, k) = <$Arr<usize> as NaturalArray<K>>::connected_components(&idx(&a["src"]), &idx(&a["tgt"]), us(&a["n"]));
                        val(json!({"labels": o_idx(&l), "k": nat(k)}))
                    }

                    // ======================================================= finite functions (C06)
                    "ff.new" => opt(FF::new(idx(&a["table"]), us(&a["target"])).map(|f| o_ff(&f))),
                    "ff.identity" => val(o_ff(&FF::identity(us(&a["n"])))),
                    "ff.source" => val(nat(ff(&a["f"]).source())),
                    "ff.target" => val(nat(ff(&a["f"]).target())),
                    "ff.compose" => opt(ff(&a["f"]).compose(&ff(&a["g"])).map(|f| o_ff(&f))),
                    "ff.compose_shr" => opt((&ff(&a["f"]) >> &ff(&a["g"])).map(|f| o_ff(&f))),
                    "ff.initial" => val(o_ff(&FF::initial(us(&a["a"])))),
                    "ff.to_initial" => val(o_ff(&ff(&a["f"]).to_initial())),
                    "ff.terminal" => val(o_ff(&FF::terminal(us(&a["a"])))),
                    "ff.initial_object" => val(nat(<FF as Coproduct>::initial_object())),
                    "ff.unit" => val(nat(<FF as Monoidal>::unit())),
                    "ff.constant" => val(o_ff(&FF::constant(us(&a["a"]), us(&a["x"]), us(&a["b"])))),
                    "ff.inj0" => val(o_ff(&FF::inj0(us(&a["a"]), us(&a["b"])))),
                    "ff.inj1" => val(o_ff(&FF::inj1(us(&a["a"]), us(&a["b"])))),
                    "ff.inject0" => val(o_ff(&ff(&a["f"]).inject0(us(&a["b"])))),
                    "ff.inject1" => val(o_ff(&ff(&a["f"]).inject1(us(&a["a"])))),
                    "ff.coproduct" => opt(ff(&a["f"]).coproduct(&ff(&a["g"])).map(|f| o_ff(&f))),
                    "ff.coproduct_add" => opt((&ff(&a["f"]) + &ff(&a["g"])).map(|f| o_ff(&f))),
                    "ff.tensor" => val(o_ff(&ff(&a["f"]).tensor(&ff(&a["g"])))),
                    "ff.tensor_bitor" => val(o_ff(&(&ff(&a["f"]) | &ff(&a["g"])))),
                    "ff.twist" => val(o_ff(&FF::twist(us(&a["a"]), us(&a["b"])))),
                    "ff.transpose" => val(o_ff(&FF::transpose(us(&a["a"]), us(&a["b"])))),
                    "ff.cumulative_sum" => val(o_ff(&ff(&a["f"]).cumulative_sum())),
                    "ff.injections" => opt(ff(&a["s"]).injections(&ff(&a["a"])).map(|f| o_ff(&f))),
                    "ff.is_injective" => val(json!(ff(&a["f"]).is_injective())),
                    "ff.coequalizer" => opt(ff(&a["f"]).coequalizer(&ff(&a["g"])).map(|f| o_ff(&f))),
                    "ff.coequalizer_universal" => opt(ff(&a["q"]).coequalizer_universal(&ff(&a["f"])).map(|f| o_ff(&f))),
                    "ff.universal_labels" => opt(finite_function::coequalizer_universal::<K, O>(&ff(&a["q"]), &$Arr(vec_o(&a["h"]))).map(|x| json!(x.0))),
                    "ff.compose_semifinite" => opt((&ff(&a["f"]) >> &sf_o(&a["labels"])).map(|x| o_sf_o(&x))),
                    "ff.eq" => val(json!(ff(&a["f"]) == ff(&a["g"]))),
                    // ---- semifinite functions and the SemifiniteArrow category (C06)
                    "sf.coproduct" => val(o_sf_o(&sf_o(&a["a"]).coproduct(&sf_o(&a["b"])))),
                    "sf.add" => opt((&sf_o(&a["a"]) + &sf_o(&a["b"])).map(|x| o_sf_o(&x))),
                    "sf.singleton" => val(o_sf_o(&SF::<O>::singleton(int(&a["x"])))),
                    "sf.zero" => val(o_sf_o(&<SF<O> as num_traits::Zero>::zero())),
                    "sf.len" => val(nat(sf_o(&a["a"]).len())),
                    "sfa.compose" | "sfa.source" | "sfa.target" | "sfa.identity" => {
                        use open_hypergraphs::semifinite::{SemifiniteArrow, SemifiniteObject};
                        fn arrow(v: &Value) -> SemifiniteArrow<K, O> {
                            match v["kind"].as_str().unwrap() {
                                "identity" => SemifiniteArrow::Identity,
                                "finite" => SemifiniteArrow::Finite(ff(&v["f"])),
                                _ => SemifiniteArrow::Semifinite(sf_o(&v["labels"])),
                            }
                        }
                        fn o_arrow(x: &SemifiniteArrow<K, O>) -> Value {
                            match x {
                                SemifiniteArrow::Identity => json!({"kind": "identity"}),
                                SemifiniteArrow::Finite(f) => json!({"kind": "finite", "f": o_ff(f)}),
                                SemifiniteArrow::Semifinite(l) => json!({"kind": "semifinite", "labels": o_sf_o(l)}),
                            }
                        }
                        fn o_obj(x: &SemifiniteObject<K, O>) -> Value {
                            match x {
                                SemifiniteObject::Finite(n) => json!({"kind": "finite", "n": nat(*n)}),
                                SemifiniteObject::Set(_) => json!({"kind": "set"}),
                            }
                        }
                        match op {
                            "sfa.compose" => opt(arrow(&a["f"]).compose(&arrow(&a["g"])).map(|x| o_arrow(&x))),
                            "sfa.source" => val(o_obj(&arrow(&a["f"]).source())),
                            "sfa.target" => val(o_obj(&arrow(&a["f"]).target())),
                            _ => {
                                let obj = if a["obj"]["kind"] == "set" { SemifiniteObject::Set(std::marker::PhantomData) } else { SemifiniteObject::Finite(us(&a["obj"]["n"])) };
                                val(o_arrow(&SemifiniteArrow::<K, O>::identity(obj)))
                            }
                        }
                    }

                    // ======================================================= segmented arrays (C08)
                    "ic.new_ff" => opt(ICF::new(ff(&a["sources"]), ff(&a["values"])).map(|x| o_icf(&x))),
                    "ic.new_sf" => opt(ICS::<O>::new(ff(&a["sources"]), sf_o(&a["values"])).map(|x| o_ics_o(&x))),
                    "ic.from_semifinite_ff" => opt(ICF::from_semifinite(SemifiniteFunction(idx(&a["sizes"])), ff(&a["values"])).map(|x| o_icf(&x))),
                    "ic.from_semifinite_sf" => opt(ICS::<O>::from_semifinite(SemifiniteFunction(idx(&a["sizes"])), sf_o(&a["values"])).map(|x| o_ics_o(&x))),
                    "ic.singleton_ff" => val(o_icf(&ICF::singleton(ff(&a["values"])))),
                    "ic.singleton_sf" => val(o_ics_o(&ICS::<O>::singleton(sf_o(&a["values"])))),
                    "ic.elements_ff" => val(o_icf(&ICF::elements(ff(&a["values"])))),
                    "ic.elements_sf" => val(o_ics_o(&ICS::<O>::elements(sf_o(&a["values"])))),
                    "ic.initial" => val(o_icf(&ICF::initial(us(&a["target"])))),
                    "ic.len_ff" => val(nat(icf(&a["ic"]).len())),
                    "ic.coproduct_ff" => opt(icf(&a["a"]).coproduct(&icf(&a["b"])).map(|x| o_icf(&x))),
                    "ic.coproduct_sf" => opt(ics_o(&a["a"]).coproduct(&ics_o(&a["b"])).map(|x| o_ics_o(&x))),
                    "ic.tensor" => val(o_icf(&icf(&a["a"]).tensor(&icf(&a["b"])))),
                    "ic.map_indexes_ff" => opt(icf(&a["ic"]).map_indexes(&ff(&a["x"])).map(|x| o_icf(&x))),
                    "ic.map_indexes_sf" => opt(ics_o(&a["ic"]).map_indexes(&ff(&a["x"])).map(|x| o_ics_o(&x))),
                    "ic.indexed_values_ff" => opt(icf(&a["ic"]).indexed_values(&ff(&a["x"])).map(|x| o_ff(&x))),
                    "ic.indexed_values_sf" => opt(ics_o(&a["ic"]).indexed_values(&ff(&a["x"])).map(|x| o_sf_o(&x))),
                    "ic.map_values" => opt(icf(&a["ic"]).map_values(&ff(&a["x"])).map(|x| o_icf(&x))),
                    "ic.map_semifinite" => opt(icf(&a["ic"]).map_semifinite(&sf_o(&a["labels"])).map(|x| o_ics_o(&x))),
                    "ic.flatmap" => val(o_icf(&icf(&a["a"]).flatmap(&icf(&a["b"])))),
                    "ic.flatmap_sources_ff" => val(o_icf(&icf(&a["a"]).flatmap_sources(&icf(&a["b"])))),
                    "ic.flatmap_sources_sf" => val(o_ics_o(&ics_o(&a["a"]).flatmap_sources(&ics_o(&a["b"])))),
                    // iterator histories: a script of calls, all answers recorded
                    "ic.iter_ff" => {
                        let mut it = icf(&a["ic"]).into_iter();
                        let mut outs = vec![];
                        for c in arr(&a["script"]) {
                            outs.push(match c.as_str().unwrap() {
                                "next" => opt(it.next().map(|f| o_ff(&f))),
                                "len" => val(nat(it.len())),
                                "size_hint" => {
                                    let (lo, hi) = it.size_hint();
                                    val(json!({"lo": nat(lo), "hi": opt(hi.map(nat))}))
                                }
                                _ => panic!("harness: bad iterator call"),
                            });
                        }
                        val(Value::Array(outs))
                    }
                    "ic.iter_sf" => {
                        let mut it = ics_o(&a["ic"]).into_iter();
                        let mut outs = vec![];
                        for c in arr(&a["script"]) {
                            outs.push(match c.as_str().unwrap() {
                                "next" => opt(it.next().map(|f| o_sf_o(&f))),
                                "len" => val(nat(it.len())),
                                "size_hint" => {
                                    let (lo, hi) = it.size_hint();
                                    val(json!({"lo": nat(lo), "hi": opt(hi.map(nat))}))
                                }
                                _ => panic!("harness: bad iterator call"),
                            });
                        }
                        val(Value::Array(outs))
                    }
                    "ops.new" => opt(OPS::new(sf_a(&a["x"]), ics_o(&a["a"]), ics_o(&a["b"])).map(|o| o_ops(&o))),
                    "ops.singleton" => val(o_ops(&OPS::singleton(A(int(&a["x"])), sf_o(&a["a"]), sf_o(&a["b"])))),
                    "ops.len" => val(nat(ops(&a["ops"]).len())),
                    "ops.iter" | "ic.iter_slices" => iter_views(op, a),

                    // ======================================================= strict hypergraphs (C01-C05)
                    "hyper.new" => match HG::new(icf(&a["s"]), icf(&a["t"]), sf_o(&a["w"]), sf_a(&a["x"])) {
                        Ok(h) => ok(o_hg(&h)),
                        Err(e) => err(hg_err(&e)),
                    },
                    "hyper.empty" => val(o_hg(&HG::empty())),
                    "hyper.discrete" => val(o_hg(&HG::discrete(sf_o(&a["w"])))),
                    "hyper.is_discrete" => val(json!(hg(&a["h"]).is_discrete())),
                    "hyper.coproduct" => val(o_hg(&hg(&a["g"]).coproduct(&hg(&a["h"])))),
                    "hyper.coproduct_add" => val(o_hg(&(&hg(&a["g"]) + &hg(&a["h"])))),
                    "hyper.tensor_operations" => val(o_hg(&HG::tensor_operations(ops(&a["ops"])))),
                    "hyper.coequalize_vertices" => opt(hg(&a["h"]).coequalize_vertices(&ff(&a["q"])).map(|h| o_hg(&h))),
                    "hyper.in_degree" => val(nat(hg(&a["h"]).in_degree(us(&a["node"])))),
                    "hyper.out_degree" => val(nat(hg(&a["h"]).out_degree(us(&a["node"])))),
                    "hyper.is_acyclic" => val(json!(hg(&a["h"]).is_acyclic())),
                    "strict.new" => match OH::new(ff(&a["s"]), ff(&a["t"]), hg(&a["h"])) {
                        Ok(f) => ok(o_oh(&f)),
                        Err(e) => err(oh_err(&e)),
                    },
                    "strict.compose" => opt(Arrow::compose(&oh(&a["f"]), &oh(&a["g"])).map(|f| o_oh(&f))),
                    "strict.compose_shr" => opt((&oh(&a["f"]) >> &oh(&a["g"])).map(|f| o_oh(&f))),
                    "strict.tensor" => val(o_oh(&oh(&a["f"]).tensor(&oh(&a["g"])))),
                    "strict.tensor_bitor" => val(o_oh(&(&oh(&a["f"]) | &oh(&a["g"])))),
                    "strict.identity" => val(o_oh(&OH::identity(sf_o(&a["w"])))),
                    "strict.twist" => val(o_oh(&OH::twist(sf_o(&a["a"]), sf_o(&a["b"])))),
                    "strict.dagger" => val(o_oh(&oh(&a["f"]).dagger())),
                    "strict.spider" => opt(OH::spider(ff(&a["s"]), ff(&a["t"]), sf_o(&a["w"])).map(|f| o_oh(&f))),
                    "strict.half_spider" => opt(<OH as Spider<K>>::half_spider(ff(&a["s"]), sf_o(&a["w"])).map(|f| o_oh(&f))),
                    "strict.singleton" => val(o_oh(&OH::singleton(A(int(&a["x"])), sf_o(&a["a"]), sf_o(&a["b"])))),
                    "strict.tensor_operations" => val(o_oh(&OH::tensor_operations(ops(&a["ops"])))),
                    "strict.source" => val(o_sf_o(&oh(&a["f"]).source())),
                    "strict.target" => val(o_sf_o(&oh(&a["f"]).target())),
                    "strict.unit" => val(o_sf_o(&<OH as Monoidal>::unit())),
                    // the same operations through the categorical traits (where an inherent method of the same name exists)
                    "strict.source_trait" => val(o_sf_o(&<OH as Arrow>::source(&oh(&a["f"])))),
                    "strict.target_trait" => val(o_sf_o(&<OH as Arrow>::target(&oh(&a["f"])))),
                    "strict.identity_trait" => val(o_oh(&<OH as Arrow>::identity(sf_o(&a["w"])))),
                    "strict.spider_trait" => opt(<OH as Spider<K>>::spider(ff(&a["s"]), ff(&a["t"]), sf_o(&a["w"])).map(|f| o_oh(&f))),
                    "strict.is_acyclic" => val(json!(oh(&a["f"]).is_acyclic())),
                    "strict.is_monogamous" => val(json!(oh(&a["f"]).is_monogamous())),

                    // ---- laws: both sides computed through the public API (C02-C04)
                    "law.assoc" => {
                        let (f, g, h) = (oh(&a["f"]), oh(&a["g"]), oh(&a["h"]));
                        let l = Arrow::compose(&f, &g).and_then(|fg| Arrow::compose(&fg, &h));
                        let r = Arrow::compose(&g, &h).and_then(|gh| Arrow::compose(&f, &gh));
                        val(json!({"lhs": opt(l.map(|x| o_oh(&x))), "rhs": opt(r.map(|x| o_oh(&x)))}))
                    }
                    "law.unit" => {
                        let f = oh(&a["f"]);
                        let l = Arrow::compose(&OH::identity(f.source()), &f);
                        let r = Arrow::compose(&f, &OH::identity(f.target()));
                        val(json!({"lhs": opt(l.map(|x| o_oh(&x))), "rhs": opt(r.map(|x| o_oh(&x)))}))
                    }
                    "law.interchange" => {
                        // (f ; g) x (h ; k)  =  (f x h) ; (g x k)
                        let (f, g, h, k) = (oh(&a["f"]), oh(&a["g"]), oh(&a["h"]), oh(&a["k"]));
                        let l = Arrow::compose(&f, &g).and_then(|fg| Arrow::compose(&h, &k).map(|hk| fg.tensor(&hk)));
                        let r = Arrow::compose(&f.tensor(&h), &g.tensor(&k));
                        val(json!({"lhs": opt(l.map(|x| o_oh(&x))), "rhs": opt(r.map(|x| o_oh(&x)))}))
                    }
                    "law.twist_natural" => {
                        // (f x g) ; twist(B, D)  =  twist(A, C) ; (g x f)
                        let (f, g) = (oh(&a["f"]), oh(&a["g"]));
                        let l = Arrow::compose(&f.tensor(&g), &OH::twist(f.target(), g.target()));
                        let r = Arrow::compose(&OH::twist(f.source(), g.source()), &g.tensor(&f));
                        val(json!({"lhs": opt(l.map(|x| o_oh(&x))), "rhs": opt(r.map(|x| o_oh(&x)))}))
                    }
                    "law.twist_inverse" => {
                        let (x, y) = (sf_o(&a["a"]), sf_o(&a["b"]));
                        let l = Arrow::compose(&OH::twist(x.clone(), y.clone()), &OH::twist(y.clone(), x.clone()));
                        val(json!({"lhs": opt(l.map(|x| o_oh(&x))), "rhs": some(o_oh(&OH::identity(x + y)))}))
                    }
                    "law.hexagon" => {
                        // twist(A, B.C) = (twist(A,B) x id_C) ; (id_B x twist(A,C))
                        let (x, y, z) = (sf_o(&a["a"]), sf_o(&a["b"]), sf_o(&a["c"]));
                        let l = OH::twist(x.clone(), y.clone() + z.clone());
                        let r = Arrow::compose(
                            &OH::twist(x.clone(), y.clone()).tensor(&OH::identity(z.clone())),
                            &OH::identity(y.clone()).tensor(&OH::twist(x.clone(), z.clone())),
                        );
                        // and the mirrored one: twist(A.B, C) = (id_A x twist(B,C)) ; (twist(A,C) x id_B)
                        let l2 = OH::twist(x.clone() + y.clone(), z.clone());
                        let r2 = Arrow::compose(
                            &OH::identity(x.clone()).tensor(&OH::twist(y.clone(), z.clone())),
                            &OH::twist(x.clone(), z.clone()).tensor(&OH::identity(y.clone())),
                        );
                        val(json!({"lhs": some(o_oh(&l)), "rhs": opt(r.map(|x| o_oh(&x))),
                                   "lhs2": some(o_oh(&l2)), "rhs2": opt(r2.map(|x| o_oh(&x)))}))
                    }
                    "law.tensor_assoc" => {
                        let (f, g, h) = (oh(&a["f"]), oh(&a["g"]), oh(&a["h"]));
                        val(json!({"lhs": o_oh(&f.tensor(&g).tensor(&h)), "rhs": o_oh(&f.tensor(&g.tensor(&h)))}))
                    }
                    "law.tensor_unit" => {
                        let f = oh(&a["f"]);
                        let u = OH::identity(<OH as Monoidal>::unit());
                        val(json!({"lhs": o_oh(&u.tensor(&f)), "rhs": o_oh(&f.tensor(&u)), "unit": o_oh(&u)}))
                    }
                    "law.dagger_compose" => {
                        // (f ; g)+  vs  g+ ; f+
                        let (f, g) = (oh(&a["f"]), oh(&a["g"]));
                        let l = Arrow::compose(&f, &g).map(|x| x.dagger());
                        let r = Arrow::compose(&g.dagger(), &f.dagger());
                        val(json!({"lhs": opt(l.map(|x| o_oh(&x))), "rhs": opt(r.map(|x| o_oh(&x)))}))
                    }
                    "law.dagger_tensor" => {
                        let (f, g) = (oh(&a["f"]), oh(&a["g"]));
                        val(json!({"lhs": o_oh(&f.tensor(&g).dagger()), "rhs": o_oh(&f.dagger().tensor(&g.dagger())), "inv": o_oh(&f.dagger().dagger())}))
                    }
                    "law.spider_fusion" => {
                        let l = OH::spider(ff(&a["s1"]), ff(&a["t1"]), sf_o(&a["w1"]));
                        let r = OH::spider(ff(&a["s2"]), ff(&a["t2"]), sf_o(&a["w2"]));
                        let c = match (&l, &r) {
                            (Some(l), Some(r)) => Arrow::compose(l, r),
                            _ => None,
                        };
                        val(json!({"l": opt(l.map(|x| o_oh(&x))), "r": opt(r.map(|x| o_oh(&x))), "c": opt(c.map(|x| o_oh(&x)))}))
                    }

                    // ======================================================= layering, evaluation (C15, C16)
                    "strict.layer" => {
                        let (order, unvisited) = open_hypergraphs::strict::layer::layer(&oh(&a["f"]));
                        val(json!({"order": o_ff(&order), "unvisited": o_idx(&unvisited)}))
                    }
                    "strict.layered_operations" => {
                        let (layers, unvisited) = open_hypergraphs::strict::layer::layered_operations(&oh(&a["f"]));
                        val(json!({"layers": layers.iter().map(o_idx).collect::<Vec<_>>(), "unvisited": o_idx(&unvisited)}))
                    }
                    "hook.converse" => val(o_icf(&open_hypergraphs::strict::verif::converse(&icf(&a["r"])))),
                    "hook.operation_adjacency" => val(o_icf(&open_hypergraphs::strict::verif::operation_adjacency(&hg(&a["h"])))),
                    "hook.node_adjacency" => val(o_icf(&open_hypergraphs::strict::verif::node_adjacency(&hg(&a["h"])))),
                    "hook.indegree" => val(o_ff(&open_hypergraphs::strict::verif::indegree(&icf(&a["adj"])))),
                    "hook.kahn" => {
                        let (order, unvisited) = open_hypergraphs::strict::verif::kahn(&icf(&a["adj"]));
                        val(json!({"order": o_idx(&order), "unvisited": o_idx(&unvisited)}))
                    }
                    "strict.eval" => {
                        let inputs: Vec<u8> = vec_us(&a["inputs"]).into_iter().map(|x| x as u8).collect();
                        let (r, log) = eval_logged(&oh(&a["f"]), inputs);
                        json!({"tag": if r.is_some() {"some"} else {"none"}, "val": r.unwrap_or_default(), "batches": log})
                    }

                    // ======================================================= morphisms (C18)
                    "arrow.new" => match HypergraphArrow::<K, O, A>::new(hg(&a["source"]), hg(&a["target"]), ff(&a["w"]), ff(&a["x"])) {
                        Ok(_) => ok(json!(true)),
                        Err(e) => err(arrow_err(&e)),
                    },
                    "arrow.is_monomorphism" => {
                        let m = HypergraphArrow::<K, O, A> { source: hg(&a["source"]), target: hg(&a["target"]), w: ff(&a["w"]), x: ff(&a["x"]) };
                        val(json!(m.is_monomorphism()))
                    }
                    "arrow.is_convex_subgraph" => {
                        let m = HypergraphArrow::<K, O, A> { source: hg(&a["source"]), target: hg(&a["target"]), w: ff(&a["w"]), x: ff(&a["x"]) };
                        val(json!(m.is_convex_subgraph()))
                    }

                    "arrow.clone" => {
                        let m = HypergraphArrow::<K, O, A> { source: hg(&a["source"]), target: hg(&a["target"]), w: ff(&a["w"]), x: ff(&a["x"]) };
                        let c = m.clone();
                        val(json!({"source": o_hg(&c.source), "target": o_hg(&c.target), "w": o_ff(&c.w), "x": o_ff(&c.x)}))
                    }

                    // ======================================================= hand-written Clone / PartialEq impls
                    "ff.clone" => val(o_ff(&ff(&a["f"]).clone())),
                    "sf.clone" => val(o_sf_o(&sf_o(&a["a"]).clone())),
                    "sf.is_zero" => val(json!(<SF<O> as num_traits::Zero>::is_zero(&sf_o(&a["a"])))),
                    "sf.eq" => val(json!(sf_o(&a["a"]) == sf_o(&a["b"]))),
                    "ic.clone_ff" => val(o_icf(&icf(&a["ic"]).clone())),
                    "ic.clone_sf" => val(o_ics_o(&ics_o(&a["ic"]).clone())),
                    "ic.eq_ff" => val(json!(icf(&a["a"]) == icf(&a["b"]))),
                    "ic.eq_sf" => val(json!(ics_o(&a["a"]) == ics_o(&a["b"]))),
                    "hyper.clone" => val(o_hg(&hg(&a["h"]).clone())),
                    "strict.clone" => val(o_oh(&oh(&a["f"]).clone())),

                    // ======================================================= functors, optics (C12, C14)
                    "functor.map_arrow" => {
                        let t = TableFunctor { t: tables::FunctorTable::from_json(&a["F"]) };
                        val(o_oh(&t.map_arrow(&oh(&a["f"]))))
                    }
                    "functor.map_object" => {
                        let t = TableFunctor { t: tables::FunctorTable::from_json(&a["F"]) };
                        val(o_ics_o(&t.map_object(&sf_o(&a["w"]))))
                    }
                    "functor.identity" => {
                        let i = open_hypergraphs::strict::functor::identity::Identity;
                        val(o_oh(&<_ as Functor<K, O, A, O, A>>::map_arrow(&i, &oh(&a["f"]))))
                    }
                    "functor.laws" => {
                        // F(f;g) vs F(f);F(g), F(f x g) vs F(f) x F(g), F(id), F(twist), F(dagger)
                        let t = TableFunctor { t: tables::FunctorTable::from_json(&a["F"]) };
                        let (f, g) = (oh(&a["f"]), oh(&a["g"]));
                        let fg = Arrow::compose(&f, &g);
                        let (ff_, fg_) = (t.map_arrow(&f), t.map_arrow(&g));
                        val(json!({
                            "Ff": o_oh(&ff_), "Fg": o_oh(&fg_),
                            "F_fg": opt(fg.as_ref().map(|x| o_oh(&t.map_arrow(x)))),
                            "Ff_Fg": opt(Arrow::compose(&ff_, &fg_).map(|x| o_oh(&x))),
                            "F_tensor": o_oh(&t.map_arrow(&f.tensor(&g))),
                            "tensor_F": o_oh(&ff_.tensor(&fg_)),
                            "F_dagger": o_oh(&t.map_arrow(&f.dagger())),
                            "dagger_F": o_oh(&ff_.dagger()),
                            "F_id": o_oh(&t.map_arrow(&OH::identity(f.source()))),
                            "F_twist": o_oh(&t.map_arrow(&OH::twist(f.source(), g.source()))),
                        }))
                    }
                    "optic.map_arrow" | "optic.map_adapted" | "optic.eval_adapted" | "optic.laws" => {
                        use open_hypergraphs::strict::functor::optic::Optic;
                        let ot = tables::OpticTable::from_json(&a["optic"]);
                        let fwd = TableFunctor { t: ot.fwd.clone() };
                        let rev = TableFunctor { t: ot.rev.clone() };
                        let res = ot.residual.clone();
                        let optic: Optic<TableFunctor, TableFunctor, K, O, A, O, A> = Optic::new(
                            fwd,
                            rev,
                            Box::new(move |ops: &OPS| {
                                let mut sizes = vec![];
                                let mut values = vec![];
                                for x in ops.x.0 .0.iter() {
                                    let m = res.get(&x.0).cloned().unwrap_or_default();
                                    sizes.push(m.len());
                                    values.extend(m);
                                }
                                ICS::<O>::from_semifinite(SemifiniteFunction($Arr(sizes)), SemifiniteFunction($Arr(values))).unwrap()
                            }),
                        );
                        let f = oh(&a["f"]);
                        let c = optic.map_arrow(&f);
                        match op {
                            "optic.map_arrow" => val(o_oh(&c)),
                            "optic.map_adapted" => val(json!({"optic": o_oh(&c), "adapted": o_oh(&optic.adapt(&c, &f.source(), &f.target()))})),
                            "optic.eval_adapted" => {
                                let ad = optic.adapt(&c, &f.source(), &f.target());
                                let mut outs = vec![];
                                for inp in arr(&a["inputs"]) {
                                    let inputs: Vec<u8> = vec_us(inp).into_iter().map(|x| x as u8).collect();
                                    let (r, _) = eval_logged(&ad, inputs);
                                    outs.push(opt(r.map(|v| json!(v))));
                                }
                                val(json!({"adapted": o_oh(&ad), "mono": ad.is_monogamous(), "outs": outs}))
                            }
                            _ => {
                                let g = oh(&a["g"]);
                                let cg = optic.map_arrow(&g);
                                val(json!({
                                    "Of": o_oh(&c), "Og": o_oh(&cg),
                                    "O_fg": opt(Arrow::compose(&f, &g).map(|x| o_oh(&optic.map_arrow(&x)))),
                                    "Of_Og": opt(Arrow::compose(&c, &cg).map(|x| o_oh(&x))),
                                    "O_tensor": o_oh(&optic.map_arrow(&f.tensor(&g))),
                                    "tensor_O": o_oh(&c.tensor(&cg)),
                                }))
                            }
                        }
                    }
                    _ => json!({"tag": "unknown_op", "op": op}),
                }
            }
        }
    };
}

strict_backend!(vec, open_hypergraphs::array::vec::VecKind, VecArray, open_hypergraphs::array::vec::VecArray);
strict_backend!(adv, crate::adv::AdvKind, AdvArray, crate::adv::AdvArray);
