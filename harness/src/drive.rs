//! Seeded random driver (DRIVE): larger inputs and longer histories than TLC enumerates.
pub fn main(_args: &[String]) {
    eprintln!("drive: not built yet");
    std::process::exit(2);
}
