//! Seeded random driver (DRIVE): longer histories and larger inputs than TLC enumerates.
//! It records every public call with its arguments and what came back, in the same event format
//! as `exec`; there are no predictions - the specification alone decides (spec/Trace.tla).
//!
//!   lax     histories of builder calls on one lax diagram (the judge tracks the state itself:
//!           events carry no pre-state, only the logged post-state, used to re-synchronise)
//!   strict  a workbench: a pool of strict diagrams; results of operations are fed back as inputs
//!   arrays  array / finite-function / segmented-array primitives on larger random arguments
use crate::codec::*;
use crate::rng::Rng;
use crate::{dispatch, guarded, lax_ops};
use serde_json::{json, Value};
use std::io::Write;

thread_local! {
    static ONLY: std::cell::RefCell<Vec<String>> = const { std::cell::RefCell::new(vec![]) };
}
/// is this operation wanted by the property being checked?  (`--only prefix,prefix,...`)
fn wanted(op: &str) -> bool {
    ONLY.with(|o| o.borrow().is_empty() || o.borrow().iter().any(|p| op.starts_with(p.as_str())))
}

fn emit(out: &mut impl Write, ev: Value) {
    serde_json::to_writer(&mut *out, &ev).unwrap();
    out.write_all(b"\n").unwrap();
}

fn profile() -> &'static str {
    if cfg!(debug_assertions) {
        "debug"
    } else {
        "release"
    }
}

fn rand_seq(r: &mut Rng, n: usize, maxlen: usize) -> Vec<usize> {
    if n == 0 {
        return vec![];
    }
    let len = r.below(maxlen + 1);
    (0..len).map(|_| r.below(n)).collect()
}

// ------------------------------------------------------------------ lax histories

fn lax_state_of(post: &Value) -> (usize, usize, usize) {
    (arr(&post["nodes"]).len(), arr(&post["edges"]).len(), arr(&post["ql"]).len())
}

fn drive_lax(out: &mut impl Write, r: &mut Rng, budget: usize, props: &Value) {
    let empty = lax_out(&LaxOH::empty());
    let mut produced = 0;
    let mut hist = 0u64;
    while produced < budget {
        hist += 1;
        let mut st = empty.clone();
        emit(out, json!({"op": "lax.reset", "hist": hist, "props": props, "args": {}, "backend": "vec", "profile": profile(),
                          "obs": {"tag": "val", "val": 0, "post": empty}}));
        produced += 1;
        let steps = r.range(20, 120);
        for _ in 0..steps {
            let (n, e, q) = lax_state_of(&st);
            let choice = r.below(100);
            let (op, args): (&str, Value) = if n < 2 || (choice < 18 && n < 8) {
                ("lax.new_node", json!({"label": r.below(2)}))
            } else if choice < 30 && e < 6 {
                ("lax.new_edge", json!({"x": r.below(3), "s": rand_seq(r, n, 3), "t": rand_seq(r, n, 3)}))
            } else if choice < 36 && e < 6 && n < 6 {
                ("lax.new_operation", json!({"x": r.below(3), "a": rand_seq(r, 2, 2), "b": rand_seq(r, 2, 2)}))
            } else if choice < 42 && e > 0 && n < 8 {
                ("lax.add_edge_source", json!({"e": r.below(e), "label": r.below(2)}))
            } else if choice < 48 && e > 0 && n < 8 {
                ("lax.add_edge_target", json!({"e": r.below(e), "label": r.below(2)}))
            } else if choice < 60 && q < 4 {
                ("lax.unify", json!({"v": r.below(n), "w": r.below(n)}))
            } else if choice < 68 {
                // valid, duplicated and (rarely) out-of-range identifiers
                let mut ids = rand_seq(r, n, 4);
                if r.coin(1, 12) {
                    ids.push(n + r.below(2));
                }
                ("lax.delete_nodes", json!({"ids": ids}))
            } else if choice < 73 && e > 0 {
                // up to four ids: non-adjacent duplicates, any order
                let mut ids = rand_seq(r, e, 4);
                if r.coin(1, 12) {
                    ids.push(e);
                }
                ("lax.delete_edges", json!({"ids": ids}))
            } else if choice < 83 {
                ("lax.quotient", json!({}))
            } else if choice < 90 {
                ("lax.set_interfaces", json!({"s": rand_seq(r, n, 3), "t": rand_seq(r, n, 3)}))
            } else if choice < 94 {
                ("lax.map_nodes", json!({"tbl": [1, 0]}))
            } else if choice < 97 && n <= 5 && e <= 4 {
                let g = json!({"nodes": [0, 1], "edges": [2], "adj": [{"s": [0], "t": [1, 1]}], "ql": [0], "qr": [0], "sources": [1], "targets": [0, 0]});
                ("lax.tensor_assign", json!({"g": g}))
            } else if n <= 5 && e <= 4 {
                // (hypergraph-only deletion is not driven: it leaves the interfaces of the enclosing
                //  open hypergraph stale by design, i.e. it leaves the domain of well-formed diagrams)
                let g = json!({"nodes": [1], "edges": [], "adj": [], "ql": [], "qr": [], "sources": [0, 0], "targets": []});
                ("lax.append", json!({"g": g}))
            } else {
                ("lax.is_strict", json!({}))
            };
            // the harness supplies the pre-state to the interpreter but does not log it: the judge
            // follows the history from the state it tracks
            let mut call_args = args.clone();
            call_args["pre"] = st.clone();
            let obs = if op == "lax.set_interfaces" {
                // interfaces are public fields: plain assignment, no library call involved
                let mut f = lax_in(&st);
                f.sources = vec_us(&args["s"]).into_iter().map(open_hypergraphs::lax::NodeId).collect();
                f.targets = vec_us(&args["t"]).into_iter().map(open_hypergraphs::lax::NodeId).collect();
                json!({"tag": "val", "val": 0, "post": lax_out(&f)})
            } else {
                guarded(|| lax_ops::run(op, &call_args))
            };
            if let Some(p) = obs.get("post") {
                st = p.clone();
            }
            emit(out, json!({"op": op, "hist": hist, "props": props, "args": args, "backend": "vec", "profile": profile(), "obs": obs}));
            produced += 1;
            if produced >= budget {
                break;
            }
        }
    }
}

// ------------------------------------------------------------------ strict workbench

fn rand_diagram(r: &mut Rng, maxn: usize, maxe: usize, src_type: Option<&Vec<i64>>) -> Value {
    // plain description, then the strict representation (sizes + values), through JSON
    let mut n = r.below(maxn + 1);
    let mut w: Vec<i64> = (0..n).map(|_| r.below(3) as i64).collect();
    let s: Vec<usize> = match src_type {
        Some(ty) => {
            // nodes with the required labels (appended when missing)
            let mut s = vec![];
            for l in ty {
                let cands: Vec<usize> = (0..n).filter(|i| w[*i] == *l).collect();
                if cands.is_empty() || r.coin(1, 3) {
                    w.push(*l);
                    s.push(n);
                    n += 1;
                } else {
                    s.push(*r.pick(&cands));
                }
            }
            s
        }
        None => rand_seq(r, n, 3),
    };
    let t = rand_seq(r, n, 3);
    let ne = if n == 0 { r.below(2) } else { r.below(maxe + 1) };
    let mut ssz = vec![];
    let mut sval = vec![];
    let mut tsz = vec![];
    let mut tval = vec![];
    let mut x = vec![];
    for _ in 0..ne {
        let es = rand_seq(r, n, 2);
        let et = rand_seq(r, n, 2);
        ssz.push(es.len());
        tsz.push(et.len());
        sval.extend(es);
        tval.extend(et);
        x.push(r.below(2));
    }
    json!({
        "s": {"table": s, "target": n}, "t": {"table": t, "target": n},
        "h": {"s": {"sources": {"table": ssz, "target": sval.len() + 1}, "values": {"table": sval, "target": n}},
              "t": {"sources": {"table": tsz, "target": tval.len() + 1}, "values": {"table": tval, "target": n}},
              "w": w, "x": x}
    })
}


/// strict representation (JSON) of a plain description
fn pack(w: &[i64], edges: &[(i64, Vec<usize>, Vec<usize>)], s: &[usize], t: &[usize]) -> Value {
    let n = w.len();
    let mut ssz = vec![];
    let mut sval: Vec<usize> = vec![];
    let mut tsz = vec![];
    let mut tval: Vec<usize> = vec![];
    let mut x = vec![];
    for (l, es, et) in edges {
        ssz.push(es.len());
        tsz.push(et.len());
        sval.extend(es.iter());
        tval.extend(et.iter());
        x.push(*l);
    }
    json!({
        "s": {"table": s, "target": n}, "t": {"table": t, "target": n},
        "h": {"s": {"sources": {"table": ssz, "target": sval.len() + 1}, "values": {"table": sval, "target": n}},
              "t": {"sources": {"table": tsz, "target": tval.len() + 1}, "values": {"table": tval, "target": n}},
              "w": w, "x": x}
    })
}

/// a random single-writer acyclic circuit over the evaluation signature with `nops` operations,
/// with hyperedges and nodes renumbered at random (numbering must not matter)
fn rand_circuit(r: &mut Rng, nops: usize) -> (Value, usize) {
    let ni = r.range(1, 3);
    rand_circuit_with(r, nops, ni)
}

fn rand_circuit_with(r: &mut Rng, nops: usize, ni: usize) -> (Value, usize) {
    // label -> (arity, coarity)
    let sig: [(i64, usize, usize); 9] = [(1, 2, 1), (2, 2, 1), (3, 1, 1), (4, 1, 2), (6, 0, 1), (9, 2, 1), (10, 1, 1), (12, 2, 2), (13, 2, 2)];
    let mut avail: Vec<usize> = (0..ni).collect();
    let mut n = ni;
    let mut edges: Vec<(i64, Vec<usize>, Vec<usize>)> = vec![];
    for _ in 0..nops {
        let (l, ar, co) = *r.pick(&sig);
        let es: Vec<usize> = (0..ar).map(|_| *r.pick(&avail)).collect();
        let et: Vec<usize> = (0..co).map(|k| n + k).collect();
        n += co;
        avail.extend(et.iter());
        edges.push((l, es, et));
    }
    let no = r.range(1, 3);
    let t: Vec<usize> = (0..no).map(|_| *r.pick(&avail)).collect();
    let s: Vec<usize> = (0..ni).collect();
    // renumber nodes and hyperedges
    let mut perm: Vec<usize> = (0..n).collect();
    r.shuffle(&mut perm);
    let mut edges: Vec<(i64, Vec<usize>, Vec<usize>)> =
        edges.into_iter().map(|(l, a, b)| (l, a.iter().map(|v| perm[*v]).collect(), b.iter().map(|v| perm[*v]).collect())).collect();
    r.shuffle(&mut edges);
    let w = vec![0i64; n];
    let s: Vec<usize> = s.iter().map(|v| perm[*v]).collect();
    let t: Vec<usize> = t.iter().map(|v| perm[*v]).collect();
    (pack(&w, &edges, &s, &t), ni)
}

/// a functor table covering every operation type that occurs in `f`:
/// objects 0 |-> [0, 1], 1 |-> [] (or [1], [0, 0] ...), operations to fresh single operations of the right type
fn functor_for(r: &mut Rng, f: &Value) -> Value {
    // three generating objects, images of different lengths (block offsets matter)
    let objs: Vec<Vec<i64>> = match r.below(4) {
        0 => vec![vec![0, 1], vec![], vec![1]],
        1 => vec![vec![1], vec![0, 0], vec![]],
        2 => vec![vec![0, 0], vec![1, 0, 1], vec![0]],
        _ => vec![vec![0], vec![1], vec![2]],
    };
    let w = vec_o(&f["h"]["w"]);
    let x = vec_o(&f["h"]["x"]);
    let seg = |ic: &Value| -> Vec<Vec<usize>> {
        let sizes = vec_us(&ic["sources"]["table"]);
        let vals = vec_us(&ic["values"]["table"]);
        let mut out = vec![];
        let mut p = 0;
        for k in sizes {
            out.push(vals[p..p + k].to_vec());
            p += k;
        }
        out
    };
    let (ss, ts) = (seg(&f["h"]["s"]), seg(&f["h"]["t"]));
    let mut ops: Vec<Value> = vec![];
    let mut seen: Vec<(i64, Vec<i64>, Vec<i64>)> = vec![];
    for i in 0..x.len() {
        let a: Vec<i64> = ss[i].iter().map(|v| w[*v]).collect();
        let b: Vec<i64> = ts[i].iter().map(|v| w[*v]).collect();
        if seen.contains(&(x[i], a.clone(), b.clone())) {
            continue;
        }
        seen.push((x[i], a.clone(), b.clone()));
        let fa: Vec<i64> = a.iter().flat_map(|o| objs[*o as usize].clone()).collect();
        let fb: Vec<i64> = b.iter().flat_map(|o| objs[*o as usize].clone()).collect();
        let mut ww = fa.clone();
        ww.extend(fb.iter());
        let s: Vec<usize> = (0..fa.len()).collect();
        let t: Vec<usize> = (fa.len()..fa.len() + fb.len()).collect();
        let img = if r.coin(1, 4) && fa == fb {
            // identity wires (a node on both interfaces)
            pack(&fa, &[], &s, &s)
        } else {
            pack(&ww, &[(x[i] + 10, s.clone(), t.clone())], &s, &t)
        };
        ops.push(json!({"l": x[i], "a": a, "b": b, "img": img}));
    }
    json!({"obj": objs, "ops": ops})
}

/// a random sub-hypergraph inclusion into a random hypergraph (for the convexity test)
fn rand_inclusion(r: &mut Rng) -> Value {
    let n = r.range(2, 6);
    let ne = r.range(1, 6);
    let mut edges: Vec<(i64, Vec<usize>, Vec<usize>)> = vec![];
    for _ in 0..ne {
        edges.push((0, rand_seq(r, n, 2), rand_seq(r, n, 2)));
    }
    let w = vec![0i64; n];
    let keep_e: Vec<usize> = (0..ne).filter(|_| r.coin(1, 2)).collect();
    let mut keep_n: Vec<usize> = vec![];
    for v in 0..n {
        let touched = keep_e.iter().any(|e| edges[*e].1.contains(&v) || edges[*e].2.contains(&v));
        if touched || r.coin(1, 2) {
            keep_n.push(v);
        }
    }
    let pos = |v: usize| keep_n.iter().position(|x| *x == v).unwrap();
    let sub_edges: Vec<(i64, Vec<usize>, Vec<usize>)> =
        keep_e.iter().map(|e| (0, edges[*e].1.iter().map(|v| pos(*v)).collect(), edges[*e].2.iter().map(|v| pos(*v)).collect())).collect();
    let sub_w = vec![0i64; keep_n.len()];
    let g = pack(&sub_w, &sub_edges, &[], &[]);
    let h = pack(&w, &edges, &[], &[]);
    json!({"source": g["h"], "target": h["h"], "w": {"table": keep_n, "target": n}, "x": {"table": keep_e, "target": ne}})
}

fn size_of(d: &Value) -> (usize, usize) {
    (arr(&d["h"]["w"]).len(), arr(&d["h"]["x"]).len())
}
fn tgt_type(d: &Value) -> Vec<i64> {
    let w = vec_o(&d["h"]["w"]);
    vec_us(&d["t"]["table"]).iter().map(|i| w[*i]).collect()
}

fn drive_strict(out: &mut impl Write, r: &mut Rng, budget: usize, props: &Value, backend: &str) {
    let mut pool: Vec<Value> = (0..6).map(|_| rand_diagram(r, 3, 2, None)).collect();
    let mut produced = 0;
    while produced < budget {
        let choice = r.below(100);
        let f = r.pick(&pool).clone();
        let (op, args): (&str, Value) = if choice < 30 {
            // a partner that composes (type built to match), or sometimes an arbitrary one
            let g = if r.coin(5, 6) { rand_diagram(r, 3, 2, Some(&tgt_type(&f))) } else { r.pick(&pool).clone() };
            ("strict.compose", json!({"f": f, "g": g}))
        } else if choice < 45 {
            ("strict.tensor", json!({"f": f, "g": r.pick(&pool).clone()}))
        } else if choice < 50 {
            ("strict.dagger", json!({"f": f}))
        } else if choice < 56 {
            ("strict.layer", json!({"f": f}))
        } else if choice < 60 {
            ("strict.layered_operations", json!({"f": f}))
        } else if choice < 66 {
            ("strict.is_monogamous", json!({"f": f}))
        } else if choice < 72 {
            ("strict.is_acyclic", json!({"f": f}))
        } else if choice < 78 {
            ("functor.identity", json!({"f": f}))
        } else if choice < 84 {
            ("lax.roundtrip_strict", json!({"f": f}))
        } else if choice < 90 {
            ("law.unit", json!({"f": f}))
        } else if choice < 93 {
            let g = rand_diagram(r, 2, 1, Some(&tgt_type(&f)));
            ("law.dagger_compose", json!({"f": f, "g": g}))
        } else if choice < 96 {
            // larger programs than TLC enumerates: circuits with 4..7 operations, any numbering
            let nops = r.range(4, 7);
            let (c, ni) = rand_circuit(r, nops);
            let inputs: Vec<usize> = (0..ni).map(|_| r.below(256)).collect();
            if r.coin(1, 2) {
                ("strict.eval", json!({"f": c, "inputs": inputs}))
            } else {
                ("strict.layer", json!({"f": c}))
            }
        } else if choice < 98 {
            // functors on a fresh diagram with up to 4 hyperedges (any number of operations, not only powers of two)
            let f = if r.coin(1, 2) { rand_diagram(r, 3, 4, None) } else { f };
            let (n, e) = size_of(&f);
            if n > 6 || e > 4 {
                continue;
            }
            let ft = functor_for(r, &f);
            match r.below(4) {
                0 => ("functor.map_arrow", json!({"F": ft, "f": f})),
                1 => {
                    // the same functor through the lax trait (DynFunctor adapter); lax argument = from_strict
                    let lf = lax_out(&open_hypergraphs::lax::OpenHypergraph::from_strict(crate::strict_ops::vec::oh(&f)));
                    ("laxf.dyn_map_arrow", json!({"F": ft, "f": lf}))
                }
                2 => {
                    let lf = lax_out(&open_hypergraphs::lax::OpenHypergraph::from_strict(crate::strict_ops::vec::oh(&f)));
                    ("laxf.identity", json!({"f": lf}))
                }
                _ => {
                    let lf = lax_out(&open_hypergraphs::lax::OpenHypergraph::from_strict(crate::strict_ops::vec::oh(&f)));
                    ("laxf.map_arrow_witness", json!({"F": ft, "f": lf}))
                }
            }
        } else if choice < 99 {
            ("arrow.is_convex_subgraph", rand_inclusion(r))
        } else {
            // replace a pool entry by a fresh random diagram
            let i = r.below(pool.len());
            pool[i] = rand_diagram(r, 4, 3, None);
            continue;
        };
        let obs = dispatch(op, backend, &args);
        // feed results back as inputs (bounded size, so that the judge's isomorphism search stays cheap)
        if obs["tag"] == "some" || obs["tag"] == "val" {
            let v = &obs["val"];
            if v.get("h").is_some() {
                let (n, e) = size_of(v);
                if n <= 8 && e <= 6 && arr(&v["s"]["table"]).len() <= 6 && arr(&v["t"]["table"]).len() <= 6 {
                    if pool.len() < 24 {
                        pool.push(v.clone());
                    } else {
                        let i = r.below(pool.len());
                        pool[i] = v.clone();
                    }
                }
            }
        }
        emit(out, json!({"op": op, "props": props, "args": args, "backend": backend, "profile": profile(), "obs": obs}));
        produced += 1;
    }
}


// ------------------------------------------------------------------ graphs: layering, evaluation, predicates, convexity on larger inputs

fn rand_hyper(r: &mut Rng, maxn: usize, maxe: usize, maxa: usize) -> Value {
    let n = r.range(1, maxn);
    let ne = r.below(maxe + 1);
    let edges: Vec<(i64, Vec<usize>, Vec<usize>)> = (0..ne).map(|_| (r.below(2) as i64, rand_seq(r, n, maxa), rand_seq(r, n, maxa))).collect();
    let w: Vec<i64> = (0..n).map(|_| r.below(2) as i64).collect();
    let s = if r.coin(1, 2) { rand_seq(r, n, 3) } else { vec![] };
    let t = if r.coin(1, 2) { rand_seq(r, n, 3) } else { vec![] };
    pack(&w, &edges, &s, &t)
}

/// a monogamous diagram (every node produced exactly once - by the source interface or a hyperedge
/// target - and consumed exactly once), then at most one small perturbation next to the boundary of
/// the definition: a repeated or dropped interface entry, one more incidence, an isolated node
fn rand_near_monogamous(r: &mut Rng) -> Value {
    let ni = r.below(4);
    let mut open: Vec<usize> = (0..ni).collect();
    let mut s: Vec<usize> = open.clone();
    r.shuffle(&mut s);
    let mut n = ni;
    let mut edges: Vec<(i64, Vec<usize>, Vec<usize>)> = vec![];
    for _ in 0..r.below(4) {
        let ar = r.below(3).min(open.len());
        r.shuffle(&mut open);
        let es: Vec<usize> = open.drain(..ar).collect();
        let co = r.below(3);
        let et: Vec<usize> = (0..co).map(|k| n + k).collect();
        n += co;
        open.extend(et.iter());
        edges.push((r.below(2) as i64, es, et));
    }
    let mut t = open.clone();
    r.shuffle(&mut t);
    match r.below(10) {
        0 if !t.is_empty() => {
            let k = r.below(t.len());
            let v = t[k];
            t.insert(r.below(t.len() + 1), v);
        }
        1 if !s.is_empty() => {
            let k = r.below(s.len());
            let v = s[k];
            s.insert(r.below(s.len() + 1), v);
        }
        2 if !t.is_empty() => {
            t.remove(r.below(t.len()));
        }
        3 if !s.is_empty() => {
            s.remove(r.below(s.len()));
        }
        4 if !edges.is_empty() && n > 0 => {
            let k = r.below(edges.len());
            let v = r.below(n);
            edges[k].1.push(v);
        }
        5 if !edges.is_empty() && n > 0 => {
            let k = r.below(edges.len());
            let v = r.below(n);
            edges[k].2.push(v);
        }
        6 => n += 1,
        _ => {}
    }
    let w: Vec<i64> = (0..n).map(|_| r.below(2) as i64).collect();
    pack(&w, &edges, &s, &t)
}

fn drive_graphs(out: &mut impl Write, r: &mut Rng, budget: usize, props: &Value, backend: &str) {
    let mut produced = 0;
    while produced < budget {
        let choice = r.below(100);
        let (op, args): (&str, Value) = if choice < 22 {
            // circuits: deep (many layers) or wide (many inputs / many operations per layer)
            let nops = r.range(3, 8);
            let ni = if r.coin(1, 3) { r.range(6, 10) } else { r.range(1, 3) };
            let (c, ni) = rand_circuit_with(r, nops, ni);
            let inputs: Vec<usize> = (0..ni).map(|_| r.below(256)).collect();
            ("strict.eval", json!({"f": c, "inputs": inputs}))
        } else if choice < 30 {
            // wires only: evaluation is a permutation of the inputs
            let n = r.range(6, 12);
            let mut p: Vec<usize> = (0..n).collect();
            r.shuffle(&mut p);
            let mut q: Vec<usize> = (0..n).collect();
            if r.coin(1, 2) {
                q.swap(1, 2);
            }
            let w = vec![0i64; n];
            let inputs: Vec<usize> = (0..n).map(|_| r.below(256)).collect();
            ("strict.eval", json!({"f": pack(&w, &[], if r.coin(1, 2) { &p } else { &q }, &q), "inputs": inputs}))
        } else if choice < 45 {
            let nops = r.range(3, 8);
            let (c, _) = rand_circuit(r, nops);
            (if r.coin(1, 2) { "strict.layer" } else { "strict.layered_operations" }, json!({"f": c}))
        } else if choice < 60 {
            // arbitrary (possibly cyclic) diagrams with many operations on few nodes: wide frontiers, multiplicities
            let f = rand_hyper(r, 4, 7, 2);
            (*r.pick(&["strict.layer", "strict.layered_operations", "strict.is_acyclic"]), json!({"f": f}))
        } else if choice < 72 {
            let f = if r.coin(1, 2) { rand_near_monogamous(r) } else { rand_hyper(r, 8, 5, 3) };
            (*r.pick(&["strict.is_acyclic", "strict.is_monogamous"]), json!({"f": f}))
        } else if choice < 80 {
            let f = rand_hyper(r, 7, 5, 3);
            ("hook.node_adjacency", json!({"h": f["h"]}))
        } else if choice < 88 {
            let f = rand_hyper(r, 7, 5, 3);
            let n = arr(&f["h"]["w"]).len();
            (*r.pick(&["hyper.in_degree", "hyper.out_degree"]), json!({"h": f["h"], "node": r.below(n)}))
        } else {
            ("arrow.is_convex_subgraph", rand_inclusion(r))
        };
        if !wanted(op) {
            continue;
        }
        let obs = dispatch(op, backend, &args);
        emit(out, json!({"op": op, "props": props, "args": args, "backend": backend, "profile": profile(), "obs": obs}));
        produced += 1;
    }
}

/// structured identification lists: a balanced merge schedule (pairs, then pairs of pairs, ...), which
/// builds deep union-find trees, followed by redundant identifications and a late necessary one.
/// Returns (n1, n2, left ends in 0..n1, right ends in 0..n2).
fn structured_pairs(r: &mut Rng) -> (usize, usize, Vec<usize>, Vec<usize>) {
    let m = r.range(3, 6);
    let mut pf: Vec<usize> = (0..m).collect();
    let mut pg: Vec<usize> = (0..m + 1).collect();
    r.shuffle(&mut pf);
    r.shuffle(&mut pg);
    let mut pairs: Vec<(usize, usize)> = (0..m).map(|i| (i, i)).collect();
    let mut step = 1;
    while step < m {
        let mut level: Vec<(usize, usize)> = vec![];
        let mut j = 0;
        while j + step < m {
            level.push((j, j + step));
            j += 2 * step;
        }
        r.shuffle(&mut level);
        pairs.extend(level);
        step *= 2;
    }
    for _ in 0..r.range(0, 4) {
        pairs.push((r.below(m), r.below(m)));
    }
    pairs.push((r.below(m), m)); // the extra node on the right joins last
    if r.coin(1, 4) {
        r.shuffle(&mut pairs);
    }
    (m, m + 1, pairs.iter().map(|p| pf[p.0]).collect(), pairs.iter().map(|p| pg[p.1]).collect())
}

/// gluing along long boundaries: discrete diagrams with 3..6 nodes each, boundaries of length 4..12 with
/// repeated nodes (deep merge chains, dense identification graphs)
fn drive_glue(out: &mut impl Write, r: &mut Rng, budget: usize, props: &Value, backend: &str) {
    let mut produced = 0;
    while produced < budget {
        let (mut n1, mut n2) = (r.range(2, 6), r.range(2, 6));
        let len = r.range(4, 12);
        let mut ft: Vec<usize> = (0..len).map(|_| r.below(n1)).collect();
        let mut gs: Vec<usize> = (0..len).map(|_| r.below(n2)).collect();
        if r.coin(1, 2) {
            let (a, b, x, y) = structured_pairs(r);
            n1 = a;
            n2 = b;
            ft = x;
            gs = y;
        }
        let fs = rand_seq(r, n1, 3);
        let gt = rand_seq(r, n2, 3);
        let ne = r.below(2);
        let fe: Vec<(i64, Vec<usize>, Vec<usize>)> = (0..ne).map(|_| (0, rand_seq(r, n1, 2), rand_seq(r, n1, 2))).collect();
        let f = pack(&vec![0i64; n1], &fe, &fs, &ft);
        let g = pack(&vec![0i64; n2], &[], &gs, &gt);
        let which = r.below(11);
        let (op, args) = if which < 5 {
            ("strict.compose", json!({"f": f, "g": g}))
        } else if which == 8 || which == 9 {
            // associativity around this gluing: a third operand whose source interface (non-injective, as long as
            // g's target interface) glues again, optionally with a hyperedge
            let n3 = r.range(1, 3);
            let hs: Vec<usize> = (0..gt.len()).map(|_| r.below(n3)).collect();
            let ht = rand_seq(r, n3, 2);
            let he: Vec<(i64, Vec<usize>, Vec<usize>)> = (0..r.below(2)).map(|_| (1, rand_seq(r, n3, 2), rand_seq(r, n3, 2))).collect();
            let h = pack(&vec![0i64; n3], &he, &hs, &ht);
            ("law.assoc", json!({"f": f, "g": g, "h": h}))
        } else if which == 10 {
            // interchange with a second, smaller gluing whose boundary legs are both non-injective
            let (m1, m2) = (r.range(1, 3), r.range(1, 3));
            let bl = r.range(2, 4);
            let ht: Vec<usize> = (0..bl).map(|_| r.below(m1)).collect();
            let ks: Vec<usize> = (0..bl).map(|_| r.below(m2)).collect();
            let h = pack(&vec![0i64; m1], &[], &rand_seq(r, m1, 2), &ht);
            let k = pack(&vec![0i64; m2], &[(1, rand_seq(r, m2, 2), rand_seq(r, m2, 2))], &ks, &rand_seq(r, m2, 2));
            ("law.interchange", json!({"f": f, "g": g, "h": h, "k": k}))
        } else if which < 7 {
            // the same identifications as pending unifications of one lax diagram, then quotient
            let n = n1 + n2;
            let qr: Vec<usize> = gs.iter().map(|v| v + n1).collect();
            let all: Vec<usize> = (0..n).collect();
            let pre = json!({"nodes": vec![0; n], "edges": [3], "adj": [{"s": all, "t": [n - 1]}], "ql": ft, "qr": qr, "sources": all, "targets": [0]});
            ("lax.quotient", json!({"pre": pre}))
        } else {
            // the same gluing through the lax route: compose, then quotient via to_strict is judged separately
            let lf = json!({"nodes": vec![0; n1], "edges": [], "adj": [], "ql": [], "qr": [], "sources": fs, "targets": ft});
            let lg = json!({"nodes": vec![0; n2], "edges": [], "adj": [], "ql": [], "qr": [], "sources": gs, "targets": gt});
            ("lax.compose", json!({"f": lf, "g": lg}))
        };
        if !wanted(op) {
            continue;
        }
        let obs = dispatch(op, backend, &args);
        emit(out, json!({"op": op, "props": props, "args": args, "backend": backend, "profile": profile(), "obs": obs}));
        produced += 1;
    }
}


// ------------------------------------------------------------------ laxcat: lax categorical operations, conversions, forgetting on a pool

fn rand_lax(r: &mut Rng, maxn: usize, maxe: usize, maxq: usize) -> Value {
    let n = r.below(maxn + 1);
    let nodes: Vec<i64> = (0..n).map(|_| r.below(2) as i64).collect();
    let ne = if n == 0 { 0 } else { r.below(maxe + 1) };
    let mut edges = vec![];
    let mut adj = vec![];
    for _ in 0..ne {
        edges.push(r.below(3));
        adj.push(json!({"s": rand_seq(r, n, 2), "t": rand_seq(r, n, 2)}));
    }
    let nq = if n == 0 { 0 } else { r.below(maxq + 1) };
    // mostly label-consistent pairs (so that strictification is defined), sometimes arbitrary ones
    let mut ql = vec![];
    let mut qr = vec![];
    for _ in 0..nq {
        let v = r.below(n);
        let same: Vec<usize> = (0..n).filter(|i| nodes[*i] == nodes[v]).collect();
        let w = if r.coin(9, 10) { *r.pick(&same) } else { r.below(n) };
        ql.push(v);
        qr.push(w);
    }
    json!({"nodes": nodes, "edges": edges, "adj": adj, "ql": ql, "qr": qr, "sources": rand_seq(r, n, 3), "targets": rand_seq(r, n, 3)})
}

fn lax_size(d: &Value) -> (usize, usize, usize) {
    (arr(&d["nodes"]).len(), arr(&d["edges"]).len(), arr(&d["ql"]).len())
}

fn drive_laxcat(out: &mut impl Write, r: &mut Rng, budget: usize, props: &Value) {
    let mut pool: Vec<Value> = (0..8).map(|_| rand_lax(r, 3, 2, 2)).collect();
    let mut produced = 0;
    while produced < budget {
        let f = r.pick(&pool).clone();
        let g = r.pick(&pool).clone();
        let choice = r.below(100);
        let (op, args): (&str, Value) = if choice < 14 {
            ("lax.tensor", json!({"f": f, "g": g}))
        } else if choice < 28 {
            ("lax.lax_compose", json!({"f": f, "g": g}))
        } else if choice < 40 {
            ("lax.compose", json!({"f": f, "g": g}))
        } else if choice < 48 {
            ("lax.tensor_assign", json!({"pre": f, "g": g}))
        } else if choice < 54 {
            ("lax.append", json!({"pre": f, "g": g}))
        } else if choice < 60 {
            ("lax.dagger", json!({"f": f}))
        } else if choice < 68 {
            ("lax.quotient", json!({"pre": f}))
        } else if choice < 76 {
            ("lax.roundtrip_lax", json!({"pre": f}))
        } else if choice < 82 {
            ("lax.to_strict", json!({"pre": f}))
        } else if choice < 88 {
            ("var.forget", json!({"f": f}))
        } else if choice < 92 {
            ("var.forget_monogamous", json!({"f": f}))
        } else if choice < 96 {
            ("laxf.identity", json!({"f": f}))
        } else {
            let i = r.below(pool.len());
            pool[i] = rand_lax(r, 4, 3, 2);
            continue;
        };
        if !wanted(op) {
            continue;
        }
        // conversions and functors need label-consistent unifications: skip the others for those calls
        let needs_consistent = matches!(op, "lax.roundtrip_lax" | "lax.to_strict" | "var.forget" | "var.forget_monogamous" | "laxf.identity");
        if needs_consistent {
            let mut probe = lax_in(&f);
            if probe.quotient().is_err() {
                continue;
            }
        }
        let call_args = args.clone();
        let obs = guarded(|| lax_ops::run(op, &call_args));
        // feed results back (bounded size)
        let fed = if obs["tag"] == "some" || (obs["tag"] == "val" && obs["val"].get("nodes").is_some()) { Some(obs["val"].clone()) } else { obs.get("post").cloned() };
        if let Some(v) = fed {
            if v.get("nodes").is_some() {
                let (n, e, q) = lax_size(&v);
                if n <= 7 && e <= 5 && q <= 5 {
                    if pool.len() < 20 {
                        pool.push(v);
                    } else {
                        let i = r.below(pool.len());
                        pool[i] = v;
                    }
                }
            }
        }
        emit(out, json!({"op": op, "props": props, "args": args, "backend": "vec", "profile": profile(), "obs": obs}));
        produced += 1;
    }
}

// ------------------------------------------------------------------ progs: functor / optic tables, Var scripts, morphisms as random programs

fn singleton_img(l: i64, a: &[i64], b: &[i64]) -> Value {
    let mut w = a.to_vec();
    w.extend(b.iter());
    let s: Vec<usize> = (0..a.len()).collect();
    let t: Vec<usize> = (a.len()..a.len() + b.len()).collect();
    pack(&w, &[(l, s.clone(), t.clone())], &s, &t)
}

/// a random optic table over objects {0, 1} covering every operation type of `f`
fn optic_for(r: &mut Rng, f: &Value) -> Value {
    let lists: [Vec<i64>; 4] = [vec![], vec![0], vec![1, 0], vec![0, 0]];
    let fobj: Vec<Vec<i64>> = (0..3).map(|_| r.pick(&lists).clone()).collect();
    let robj: Vec<Vec<i64>> = (0..3).map(|_| r.pick(&lists).clone()).collect();
    let w = vec_o(&f["h"]["w"]);
    let x = vec_o(&f["h"]["x"]);
    let seg = |ic: &Value| -> Vec<Vec<usize>> {
        let sizes = vec_us(&ic["sources"]["table"]);
        let vals = vec_us(&ic["values"]["table"]);
        let mut out = vec![];
        let mut p = 0;
        for k in sizes {
            out.push(vals[p..p + k].to_vec());
            p += k;
        }
        out
    };
    let (ss, ts) = (seg(&f["h"]["s"]), seg(&f["h"]["t"]));
    let mut labels: Vec<i64> = x.clone();
    labels.sort();
    labels.dedup();
    let residual: Vec<(i64, Vec<i64>)> = labels.iter().map(|l| (*l, r.pick(&lists).clone())).collect();
    let res_of = |l: i64| residual.iter().find(|p| p.0 == l).unwrap().1.clone();
    let mut fops = vec![];
    let mut rops = vec![];
    let mut seen: Vec<(i64, Vec<i64>, Vec<i64>)> = vec![];
    for i in 0..x.len() {
        let a: Vec<i64> = ss[i].iter().map(|v| w[*v]).collect();
        let b: Vec<i64> = ts[i].iter().map(|v| w[*v]).collect();
        if seen.contains(&(x[i], a.clone(), b.clone())) {
            continue;
        }
        seen.push((x[i], a.clone(), b.clone()));
        let fl = |ty: &Vec<i64>, objs: &Vec<Vec<i64>>| -> Vec<i64> { ty.iter().flat_map(|o| objs[*o as usize].clone()).collect() };
        let (fa, fb, ra, rb) = (fl(&a, &fobj), fl(&b, &fobj), fl(&a, &robj), fl(&b, &robj));
        let m = res_of(x[i]);
        let mut fbm = fb.clone();
        fbm.extend(m.iter());
        let mut mrb = m.clone();
        mrb.extend(rb.iter());
        fops.push(json!({"l": x[i], "a": a, "b": b, "img": singleton_img(x[i] + 20, &fa, &fbm)}));
        rops.push(json!({"l": x[i], "a": a, "b": b, "img": singleton_img(x[i] + 40, &mrb, &ra)}));
    }
    json!({"fwd": {"obj": fobj, "ops": fops}, "rev": {"obj": robj, "ops": rops},
           "residual": residual.iter().map(|(l, m)| json!({"l": l, "m": m})).collect::<Vec<_>>()})
}

fn rand_script(r: &mut Rng) -> Value {
    let steps = r.range(2, 6);
    let mut nv = 0usize;
    let mut script = vec![];
    for _ in 0..steps {
        let c = r.below(10);
        if nv == 0 || c < 2 {
            script.push(json!({"k": "var", "label": r.below(2)}));
            nv += 1;
        } else if c < 6 {
            let k = *r.pick(&["add", "mul", "xor", "sub", "and", "or", "div", "shl", "shr"]);
            script.push(json!({"k": k, "l": r.below(nv), "r": r.below(nv)}));
            nv += 1;
        } else if c < 7 {
            script.push(json!({"k": *r.pick(&["neg", "not"]), "l": r.below(nv)}));
            nv += 1;
        } else if c < 9 {
            let nres = r.range(0, 3);
            let vars: Vec<usize> = (0..r.range(0, 3)).map(|_| r.below(nv)).collect();
            let results: Vec<usize> = (0..nres).map(|_| r.below(2)).collect();
            script.push(json!({"k": "op", "vars": vars, "results": results, "x": 30 + r.below(3)}));
            nv += nres;
        } else {
            script.push(json!({"k": "fnop", "vars": [r.below(nv)], "result": r.below(2), "x": 10}));
            nv += 1;
        }
    }
    let srcs = rand_seq(r, nv, 2);
    let tgts = rand_seq(r, nv, 2);
    json!({"script": script, "srcs": srcs, "tgts": tgts})
}

/// an expression over the evaluation signature: inputs are declared variables, every other variable is
/// defined by exactly one operator (so the forgotten term is single-writer and acyclic)
fn rand_eval_script(r: &mut Rng) -> Value {
    let nin = r.range(1, 3);
    let mut script: Vec<Value> = (0..nin).map(|_| json!({"k": "var", "label": 0})).collect();
    let mut nv = nin;
    for _ in 0..r.range(1, 7) {
        let c = r.below(10);
        if c < 6 {
            let k = *r.pick(&["add", "mul", "xor", "and", "sub", "or", "div", "shl", "shr"]);
            script.push(json!({"k": k, "l": r.below(nv), "r": r.below(nv)}));
            nv += 1;
        } else if c < 8 {
            script.push(json!({"k": *r.pick(&["neg", "not"]), "l": r.below(nv)}));
            nv += 1;
        } else if c < 9 {
            script.push(json!({"k": "op", "vars": [r.below(nv), r.below(nv)], "results": [0, 0], "x": 13}));
            nv += 2;
        } else {
            script.push(json!({"k": "op", "vars": [], "results": [0], "x": 6}));
            nv += 1;
        }
    }
    let srcs: Vec<usize> = (0..nin).collect();
    let tgts: Vec<usize> = (0..r.range(1, 3)).map(|_| r.below(nv)).collect();
    json!({"script": script, "srcs": srcs, "tgts": tgts})
}

/// a random pair of hypergraphs with a candidate morphism: a genuine inclusion, sometimes perturbed
fn rand_morphism(r: &mut Rng) -> Value {
    let mut m = rand_inclusion(r);
    if r.coin(1, 2) {
        // perturb one entry of one of the two maps (keeps the tables in range)
        let which = if r.coin(1, 2) { "w" } else { "x" };
        let tgt = us(&m[which]["target"]);
        let mut tbl = vec_us(&m[which]["table"]);
        if !tbl.is_empty() && tgt > 0 {
            let i = r.below(tbl.len());
            tbl[i] = r.below(tgt);
            m[which]["table"] = json!(tbl);
        }
    }
    m
}

fn drive_progs(out: &mut impl Write, r: &mut Rng, budget: usize, props: &Value, backend: &str) {
    let mut produced = 0;
    while produced < budget {
        let choice = r.below(100);
        let (op, args): (&str, Value) = if choice < 30 {
            let f = rand_diagram(r, 3, 3, None);
            let t = optic_for(r, &f);
            (*r.pick(&["optic.map_arrow", "optic.map_adapted", "laxf.optic_map_adapted"]), json!({"optic": t, "f": f}))
        } else if choice < 45 {
            ("var.script", rand_script(r))
        } else if choice < 55 {
            // expressions over the evaluation signature only, evaluated end to end
            let mut sc = rand_eval_script(r);
            let k = arr(&sc["srcs"]).len();
            sc["inputs"] = json!([(0..k).map(|_| r.below(256)).collect::<Vec<_>>(), (0..k).map(|_| r.below(256)).collect::<Vec<_>>()]);
            ("var.script_eval", sc)
        } else if choice < 80 {
            let m = rand_morphism(r);
            (*r.pick(&["arrow.new", "arrow.new", "arrow.is_monomorphism"]), m)
        } else {
            let f = rand_diagram(r, 3, 4, None);
            let ft = functor_for(r, &f);
            (*r.pick(&["functor.map_arrow", "functor.laws"]), json!({"F": ft, "f": f, "g": f}))
        };
        if !wanted(op) {
            continue;
        }
        // lax optic entry point takes a lax term
        let args = if op == "laxf.optic_map_adapted" {
            let lf = lax_out(&open_hypergraphs::lax::OpenHypergraph::from_strict(crate::strict_ops::vec::oh(&args["f"])));
            json!({"optic": args["optic"], "f": lf})
        } else {
            args
        };
        let obs = dispatch(op, backend, &args);
        emit(out, json!({"op": op, "props": props, "args": args, "backend": backend, "profile": profile(), "obs": obs}));
        produced += 1;
    }
}

// ------------------------------------------------------------------ arrays, finite functions

fn rand_arr(r: &mut Rng, maxlen: usize, maxv: usize) -> Vec<usize> {
    let len = r.below(maxlen + 1);
    (0..len).map(|_| r.below(maxv + 1)).collect()
}

fn drive_arrays(out: &mut impl Write, r: &mut Rng, budget: usize, props: &Value, backend: &str) {
    let mut produced = 0;
    while produced < budget {
        let a = rand_arr(r, 12, 6);
        let n = a.len();
        let choice = r.below(24);
        let (op, args): (&str, Value) = match choice {
            0 => ("arr.gather", json!({"a": a, "idx": rand_seq(r, n, 9)})),
            1 if n > 0 => ("arr.scatter", json!({"a": a, "idx": (0..n).map(|_| r.below(8)).collect::<Vec<_>>(), "n": 8})),
            2 => ("arr.argsort", json!({"a": a})),
            3 => ("arr.sparse_bincount", json!({"a": a})),
            4 => ("arr.cumulative_sum", json!({"a": a})),
            5 => ("arr.bincount", json!({"a": a, "size": 7})),
            6 => ("arr.zero", json!({"a": a})),
            22 | 23 => {
                // merge orders that are hard for union-find: tournaments (pairs, pairs of pairs, ...), long paths
                // in both directions, stars, on 8..70 nodes, plus a few stray nodes and edges
                let n0 = *r.pick(&[8usize, 16, 32, 33, 48, 64]);
                let extra = r.below(6);
                let nn = n0 + extra;
                let mut perm: Vec<usize> = (0..nn).collect();
                if r.coin(1, 2) {
                    r.shuffle(&mut perm);
                }
                let mut e: Vec<(usize, usize)> = vec![];
                match r.below(4) {
                    0 => {
                        let mut step = 1;
                        while step < n0 {
                            let mut i = 0;
                            while i + step < n0 {
                                e.push((i, i + step));
                                i += 2 * step;
                            }
                            step *= 2;
                        }
                    }
                    1 => e.extend((0..n0 - 1).map(|i| (i, i + 1))),
                    2 => e.extend((0..n0 - 1).rev().map(|i| (i + 1, i))),
                    _ => e.extend((1..n0).map(|i| (0, i))),
                }
                if r.coin(1, 3) {
                    let drop = r.below(e.len());
                    e.remove(drop); // two components instead of one
                }
                for _ in 0..r.below(3) {
                    e.push((r.below(nn), r.below(nn)));
                }
                if r.coin(1, 2) {
                    for p in e.iter_mut() {
                        if r.coin(1, 2) {
                            *p = (p.1, p.0);
                        }
                    }
                }
                let src: Vec<usize> = e.iter().map(|p| perm[p.0]).collect();
                let tgt: Vec<usize> = e.iter().map(|p| perm[p.1]).collect();
                ("arr.connected_components", json!({"src": src, "tgt": tgt, "n": nn}))
            }
            7 => {
                // sparse and dense edge lists over 4..12 nodes
                if r.coin(1, 2) {
                    let nn = r.range(4, 12);
                    let m = r.range(0, 2 * nn);
                    let src: Vec<usize> = (0..m).map(|_| r.below(nn)).collect();
                    let tgt: Vec<usize> = (0..m).map(|_| r.below(nn)).collect();
                    ("arr.connected_components", json!({"src": src, "tgt": tgt, "n": nn}))
                } else {
                    let (n1, n2, x, y) = structured_pairs(r);
                    let tgt: Vec<usize> = y.iter().map(|v| v + n1).collect();
                    ("arr.connected_components", json!({"src": x, "tgt": tgt, "n": n1 + n2}))
                }
            }
            8 => {
                let sizes = rand_arr(r, 5, 3);
                let total: usize = sizes.iter().sum();
                let x: Vec<usize> = (0..total).map(|_| r.below(7)).collect();
                ("arr.segmented_sum", json!({"sizes": sizes, "x": x}))
            }
            9 => ("arr.segmented_arange", json!({"sizes": rand_arr(r, 5, 3)})),
            10 => {
                let counts = rand_arr(r, 5, 3);
                let x: Vec<usize> = (0..counts.len()).map(|_| r.below(7)).collect();
                ("arr.repeat", json!({"counts": counts, "x": x}))
            }
            11 => {
                let f = json!({"table": a, "target": 7});
                let g = json!({"table": (0..n).map(|_| r.below(7)).collect::<Vec<_>>(), "target": 7});
                ("ff.coequalizer", json!({"f": f, "g": g}))
            }
            12 => {
                let s = rand_arr(r, 5, 3);
                let k = s.len();
                let tot: usize = s.iter().sum();
                ("ff.injections", json!({"s": {"table": s, "target": tot + 1}, "a": {"table": rand_seq(r, k, 6), "target": k}}))
            }
            16 if n > 0 => {
                // in-place scatter forms: distinct positions in any order, runs, duplicates
                let m = r.range(1, 12);
                let mut pos: Vec<usize> = (0..m).collect();
                if r.coin(2, 3) {
                    r.shuffle(&mut pos);
                } else if m > 2 {
                    pos.swap(1, 2);
                }
                let k = r.range(1, m);
                let ix: Vec<usize> = pos[..k].to_vec();
                let old: Vec<usize> = (0..m).map(|_| r.below(7)).collect();
                let vals: Vec<usize> = (0..k).map(|i| 10 + i).collect();
                ("arr.scatter_assign", json!({"a": old, "idx": ix, "vals": vals}))
            }
            17 => ("arr.scatter_assign_constant", json!({"a": a, "idx": rand_seq(r, n, 6), "c": 9})),
            18 => {
                let sizes = rand_arr(r, 5, 3);
                ("arr.cumulative_sum", json!({"a": sizes}))
            }
            19 => {
                let key: Vec<usize> = (0..n.min(5)).map(|_| r.below(3)).collect();
                let vals: Vec<usize> = (0..key.len()).map(|i| i + 1).collect();
                ("arr.sort_by", json!({"vals": vals, "key": key}))
            }
            20 => ("arr.quot_rem", json!({"a": a, "d": r.range(1, 5)})),
            21 => {
                let b: Vec<usize> = (0..n).map(|_| r.below(7)).collect();
                ("arr.mul_constant_add", json!({"a": a, "c": r.below(4), "x": b}))
            }
            13 => {
                let b = r.below(5);
                let aa = r.below(5);
                ("ff.transpose", json!({"a": aa, "b": b}))
            }
            14 => {
                // flatmap of two random segmented arrays (composable by construction)
                let bs = rand_arr(r, 4, 3);
                let btot: usize = bs.iter().sum();
                let bvals: Vec<usize> = (0..btot).map(|_| r.below(5)).collect();
                let asz = rand_arr(r, 4, 3);
                let atot: usize = asz.iter().sum();
                if bs.is_empty() && atot > 0 {
                    continue;
                }
                let avals: Vec<usize> = (0..atot).map(|_| r.below(bs.len().max(1))).collect();
                ("ic.flatmap", json!({"a": {"sources": {"table": asz, "target": atot + 1}, "values": {"table": avals, "target": bs.len()}},
                                      "b": {"sources": {"table": bs, "target": btot + 1}, "values": {"table": bvals, "target": 5}}}))
            }
            _ => {
                let sizes = rand_arr(r, 4, 3);
                let tot: usize = sizes.iter().sum();
                let vals: Vec<usize> = (0..tot).map(|_| r.below(5)).collect();
                let k = sizes.len();
                ("ic.map_indexes_ff", json!({"ic": {"sources": {"table": sizes, "target": tot + 1}, "values": {"table": vals, "target": 5}},
                                             "x": {"table": rand_seq(r, k, 5), "target": k}}))
            }
        };
        if !wanted(op) {
            continue;
        }
        let obs = dispatch(op, backend, &args);
        emit(out, json!({"op": op, "props": props, "args": args, "backend": backend, "profile": profile(), "obs": obs}));
        produced += 1;
    }
}

pub fn main(args: &[String]) {
    let mut machine = "lax".to_string();
    let mut seed = 1u64;
    let mut budget = 1000usize;
    let mut props = json!([]);
    let mut backend = "vec".to_string();
    let mut i = 0;
    while i < args.len() {
        match args[i].as_str() {
            "--machine" => machine = args[i + 1].clone(),
            "--seed" => seed = args[i + 1].parse().unwrap_or(1),
            "--budget" => budget = args[i + 1].parse().unwrap_or(1000),
            "--props" => props = Value::Array(args[i + 1].split(',').map(|s| json!(s)).collect()),
            "--backend" => backend = args[i + 1].clone(),
            "--only" => ONLY.with(|o| *o.borrow_mut() = args[i + 1].split(',').filter(|s| !s.is_empty()).map(|s| s.to_string()).collect()),
            _ => {
                eprintln!("drive: unknown argument {}", args[i]);
                std::process::exit(2);
            }
        }
        i += 2;
    }
    let stdout = std::io::stdout();
    let mut out = std::io::BufWriter::new(stdout.lock());
    let mut r = Rng::new(seed ^ (machine.len() as u64 * 7919));
    if backend == "adv" {
        crate::adv::set_seed(seed);
    }
    match machine.as_str() {
        "lax" => drive_lax(&mut out, &mut r, budget, &props),
        "strict" => drive_strict(&mut out, &mut r, budget, &props, &backend),
        "arrays" => drive_arrays(&mut out, &mut r, budget, &props, &backend),
        "graphs" => drive_graphs(&mut out, &mut r, budget, &props, &backend),
        "glue" => drive_glue(&mut out, &mut r, budget, &props, &backend),
        "laxcat" => drive_laxcat(&mut out, &mut r, budget, &props),
        "progs" => drive_progs(&mut out, &mut r, budget, &props, &backend),
        _ => {
            eprintln!("drive: unknown machine {}", machine);
            std::process::exit(2);
        }
    }
    out.flush().unwrap();
}
