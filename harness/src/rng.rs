//! Small deterministic PRNG (splitmix64) so that recordings are reproducible from VERIF_SEED.
#[derive(Clone)]
pub struct Rng(pub u64);

impl Rng {
    pub fn new(seed: u64) -> Self {
        Rng(seed.wrapping_mul(0x9E3779B97F4A7C15).wrapping_add(0x1234_5678_9ABC_DEF1))
    }
    pub fn next(&mut self) -> u64 {
        self.0 = self.0.wrapping_add(0x9E3779B97F4A7C15);
        let mut z = self.0;
        z = (z ^ (z >> 30)).wrapping_mul(0xBF58476D1CE4E5B9);
        z = (z ^ (z >> 27)).wrapping_mul(0x94D049BB133111EB);
        z ^ (z >> 31)
    }
    /// uniform in 0..n (n > 0)
    pub fn below(&mut self, n: usize) -> usize {
        (self.next() % (n as u64)) as usize
    }
    pub fn range(&mut self, lo: usize, hi_incl: usize) -> usize {
        lo + self.below(hi_incl - lo + 1)
    }
    pub fn coin(&mut self, num: usize, den: usize) -> bool {
        self.below(den) < num
    }
    pub fn pick<'a, T>(&mut self, xs: &'a [T]) -> &'a T {
        &xs[self.below(xs.len())]
    }
    pub fn shuffle<T>(&mut self, xs: &mut [T]) {
        for i in (1..xs.len()).rev() {
            let j = self.below(i + 1);
            xs.swap(i, j);
        }
    }
}
