//! Programs as data: table-driven functors / optics (enumerated by TLC) and the fixed operation
//! interpreter over Z/2^8 used for evaluation.
use crate::codec::*;
use serde_json::Value;
use std::collections::HashMap;

#[derive(Clone)]
pub struct FunctorTable {
    /// obj[label] = list of image labels
    pub obj: Vec<Vec<O>>,
    /// (operation label, source type, target type) -> image diagram (strict representation, JSON)
    pub ops: Vec<(i64, Vec<O>, Vec<O>, Value)>,
    /// optional lax presentation of the same images (may carry pending unifications), used by the
    /// lax functor trait only: (operation label, source type, target type) -> lax diagram (JSON)
    pub lax_ops: Vec<(i64, Vec<O>, Vec<O>, Value)>,
}

impl FunctorTable {
    pub fn from_json(v: &Value) -> Self {
        FunctorTable {
            obj: arr(&v["obj"]).iter().map(vec_o).collect(),
            ops: arr(&v["ops"])
                .iter()
                .map(|e| (int(&e["l"]), vec_o(&e["a"]), vec_o(&e["b"]), e["img"].clone()))
                .collect(),
            lax_ops: arr(&v["ops"])
                .iter()
                .filter(|e| e.get("limg").is_some())
                .map(|e| (int(&e["l"]), vec_o(&e["a"]), vec_o(&e["b"]), e["limg"].clone()))
                .collect(),
        }
    }
    pub fn obj(&self, o: O) -> &Vec<O> {
        self.obj.get(o as usize).unwrap_or_else(|| panic!("harness: functor table has no object {}", o))
    }
    pub fn lax_op(&self, x: A, a: &[O], b: &[O]) -> Option<&Value> {
        self.lax_ops.iter().find(|(l, ta, tb, _)| *l == x.0 && ta == a && tb == b).map(|e| &e.3)
    }
    pub fn op(&self, x: A, a: &[O], b: &[O]) -> &Value {
        self.ops
            .iter()
            .find(|(l, ta, tb, _)| *l == x.0 && ta == a && tb == b)
            .map(|e| &e.3)
            .unwrap_or_else(|| panic!("harness: functor table has no operation {:?} {:?} {:?}", x, a, b))
    }
}

#[derive(Clone)]
pub struct OpticTable {
    pub fwd: FunctorTable,
    pub rev: FunctorTable,
    pub residual: HashMap<i64, Vec<O>>,
}

impl OpticTable {
    pub fn from_json(v: &Value) -> Self {
        OpticTable {
            fwd: FunctorTable::from_json(&v["fwd"]),
            rev: FunctorTable::from_json(&v["rev"]),
            residual: arr(&v["residual"]).iter().map(|e| (int(&e["l"]), vec_o(&e["m"]))).collect(),
        }
    }
}

/// The test signature (labels are shared with spec/Eval.tla `Apply`), arithmetic in Z/2^8:
///  1 add (n -> 1)   2 mul (n -> 1)   3 neg (1 -> 1)   4 copy (1 -> 2)   5 discard (1 -> 0)
///  6 one (0 -> 1)   7 zero (0 -> 1)  8 and (n -> 1)   9 xor (n -> 1)   10 not (1 -> 1)
/// 11 copy3 (1 -> 3) 12 swap (2 -> 2) 13 addmul (2 -> 2: sum, product)
/// 14 sub 15 div 16 or 17 shl 18 shr (2 -> 1: operators of the Var interface)
fn arg(args: &[u8], i: usize) -> u8 {
    args.get(i).copied().unwrap_or(0)
}

pub fn apply_op(label: i64, args: &[u8]) -> Vec<u8> {
    let sum = args.iter().fold(0u8, |a, b| a.wrapping_add(*b));
    let prod = args.iter().fold(1u8, |a, b| a.wrapping_mul(*b));
    match label {
        1 => vec![sum],
        2 => vec![prod],
        3 => vec![args.first().copied().unwrap_or(0).wrapping_neg()],
        4 => vec![args.first().copied().unwrap_or(0); 2],
        5 => vec![],
        6 => vec![1],
        7 => vec![0],
        8 => vec![args.iter().fold(255u8, |a, b| a & *b)],
        9 => vec![args.iter().fold(0u8, |a, b| a ^ *b)],
        10 => vec![!args.first().copied().unwrap_or(0)],
        11 => vec![args.first().copied().unwrap_or(0); 3],
        12 => vec![args.get(1).copied().unwrap_or(0), args.first().copied().unwrap_or(0)],
        13 => vec![sum, prod],
        // the remaining binary operators of the Var interface (operand order matters for some of them)
        14 => vec![arg(args, 0).wrapping_sub(arg(args, 1))],
        15 => vec![if arg(args, 1) == 0 { 0 } else { arg(args, 0) / arg(args, 1) }],
        16 => vec![arg(args, 0) | arg(args, 1)],
        17 => vec![arg(args, 0).wrapping_shl((arg(args, 1) % 8) as u32)],
        18 => vec![arg(args, 0) >> (arg(args, 1) % 8)],
        _ => panic!("harness: operation label {} is not in the test signature", label),
    }
}
