//! JSON <-> library values.  Only public fields and public constructors are used.
use open_hypergraphs::lax;
use open_hypergraphs::lax::var::HasVar;
use serde::{Deserialize, Serialize};
use serde_json::{json, Value};

/// node labels
pub type O = i64;
/// edge (operation) labels; label 0 is the distinguished "variable" label of `lax::var`
#[derive(Clone, Copy, PartialEq, Eq, Debug, Serialize, Deserialize, Hash, PartialOrd, Ord)]
#[serde(transparent)]
pub struct A(pub i64);

impl HasVar for A {
    fn var() -> Self {
        A(0)
    }
}

pub fn us(v: &Value) -> usize {
    v.as_u64().unwrap_or_else(|| panic!("harness: expected natural, got {}", v)) as usize
}
pub fn int(v: &Value) -> i64 {
    v.as_i64().unwrap_or_else(|| panic!("harness: expected integer, got {}", v))
}
pub fn arr(v: &Value) -> &Vec<Value> {
    v.as_array().unwrap_or_else(|| panic!("harness: expected array, got {}", v))
}
pub fn vec_us(v: &Value) -> Vec<usize> {
    arr(v).iter().map(us).collect()
}
pub fn vec_o(v: &Value) -> Vec<O> {
    arr(v).iter().map(int).collect()
}
pub fn vec_a(v: &Value) -> Vec<A> {
    arr(v).iter().map(|x| A(int(x))).collect()
}
pub fn vec_s(v: &Value) -> Vec<String> {
    arr(v).iter().map(|x| x.as_str().expect("string").to_string()).collect()
}
pub fn out_a(v: &[A]) -> Value {
    Value::Array(v.iter().map(|a| json!(a.0)).collect())
}
/// numbers that may have wrapped (release profile) are not serialised as numbers
pub fn nat(x: usize) -> Value {
    if x > (1usize << 30) {
        json!(format!("huge:{}", x))
    } else {
        json!(x)
    }
}
pub fn out_us(v: &[usize]) -> Value {
    Value::Array(v.iter().map(|x| nat(*x)).collect())
}

pub fn some(v: Value) -> Value {
    json!({"tag": "some", "val": v})
}
pub fn none() -> Value {
    json!({"tag": "none"})
}
pub fn val(v: Value) -> Value {
    json!({"tag": "val", "val": v})
}
pub fn opt(v: Option<Value>) -> Value {
    match v {
        Some(x) => some(x),
        None => none(),
    }
}
pub fn ok(v: Value) -> Value {
    json!({"tag": "ok", "val": v})
}
pub fn err(variant: &str) -> Value {
    json!({"tag": "err", "variant": variant})
}

// ---------------------------------------------------------------- lax diagrams

pub type LaxOH = lax::OpenHypergraph<O, A>;

fn node_ids(v: &Value) -> Vec<lax::NodeId> {
    vec_us(v).into_iter().map(lax::NodeId).collect()
}
pub fn out_node_ids(v: &[lax::NodeId]) -> Value {
    Value::Array(v.iter().map(|n| nat(n.0)).collect())
}

/// load a lax diagram by struct literal (all fields are public)
pub fn lax_in(v: &Value) -> LaxOH {
    let adjacency = arr(&v["adj"])
        .iter()
        .map(|e| lax::Hyperedge { sources: node_ids(&e["s"]), targets: node_ids(&e["t"]) })
        .collect();
    lax::OpenHypergraph {
        sources: node_ids(&v["sources"]),
        targets: node_ids(&v["targets"]),
        hypergraph: lax::Hypergraph {
            nodes: vec_o(&v["nodes"]),
            edges: vec_a(&v["edges"]),
            adjacency,
            quotient: (node_ids(&v["ql"]), node_ids(&v["qr"])),
        },
    }
}

pub fn lax_out(f: &LaxOH) -> Value {
    let h = &f.hypergraph;
    json!({
        "nodes": h.nodes,
        "edges": out_a(&h.edges),
        "adj": h.adjacency.iter().map(|e| json!({"s": out_node_ids(&e.sources), "t": out_node_ids(&e.targets)})).collect::<Vec<_>>(),
        "ql": out_node_ids(&h.quotient.0),
        "qr": out_node_ids(&h.quotient.1),
        "sources": out_node_ids(&f.sources),
        "targets": out_node_ids(&f.targets),
    })
}
