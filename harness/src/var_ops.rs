//! `Var` builder scripts (C19): programs as data, interpreted against `lax::var`.
use crate::codec::*;
use open_hypergraphs::lax::var::*;
use serde_json::{json, Value};
use std::cell::RefCell;

macro_rules! binop {
    ($tr:ident, $f:ident, $label:expr) => {
        impl $tr<O, A> for A {
            fn $f(lhs: O, _rhs: O) -> (O, A) {
                (lhs, A($label))
            }
        }
    };
}
macro_rules! unop {
    ($tr:ident, $f:ident, $label:expr) => {
        impl $tr<O, A> for A {
            fn $f(x: O) -> (O, A) {
                (x, A($label))
            }
        }
    };
}
// operator labels coincide with the evaluation signature in tables.rs where one exists
binop!(HasAdd, add, 1);
binop!(HasMul, mul, 2);
unop!(HasNeg, neg, 3);
binop!(HasBitAnd, bitand, 8);
binop!(HasBitXor, bitxor, 9);
unop!(HasNot, not, 10);
binop!(HasSub, sub, 14);
binop!(HasDiv, div, 15);
binop!(HasBitOr, bitor, 16);
binop!(HasShl, shl, 17);
binop!(HasShr, shr, 18);

type V = Var<O, A>;

pub fn run_script(a: &Value) -> Value {
    let steps = arr(&a["script"]).clone();
    let srcs = vec_us(&a["srcs"]);
    let tgts = vec_us(&a["tgts"]);
    let leaked: RefCell<Vec<V>> = RefCell::new(vec![]);
    let r = build::<_, O, A>(|state| {
        let mut env: Vec<V> = vec![];
        for s in steps.iter() {
            let k = s["k"].as_str().unwrap();
            let get = |env: &Vec<V>, key: &str| env[us(&s[key])].clone();
            match k {
                "var" => env.push(Var::new(state.clone(), int(&s["label"]))),
                "op" => {
                    let vars: Vec<V> = vec_us(&s["vars"]).iter().map(|i| env[*i].clone()).collect();
                    let rs = operation(state, &vars, vec_o(&s["results"]), A(int(&s["x"])));
                    env.extend(rs);
                }
                "fnop" => {
                    let vars: Vec<V> = vec_us(&s["vars"]).iter().map(|i| env[*i].clone()).collect();
                    env.push(fn_operation(state, &vars, int(&s["result"]), A(int(&s["x"]))));
                }
                "add" => env.push(get(&env, "l") + get(&env, "r")),
                "mul" => env.push(get(&env, "l") * get(&env, "r")),
                "sub" => env.push(get(&env, "l") - get(&env, "r")),
                "div" => env.push(get(&env, "l") / get(&env, "r")),
                "and" => env.push(get(&env, "l") & get(&env, "r")),
                "or" => env.push(get(&env, "l") | get(&env, "r")),
                "xor" => env.push(get(&env, "l") ^ get(&env, "r")),
                "shl" => env.push(get(&env, "l") << get(&env, "r")),
                "shr" => env.push(get(&env, "l") >> get(&env, "r")),
                "neg" => env.push(-get(&env, "l")),
                "not" => env.push(!get(&env, "l")),
                "leak" => leaked.borrow_mut().push(get(&env, "v")),
                _ => panic!("harness: unknown script step {}", k),
            }
        }
        (srcs.iter().map(|i| env[*i].clone()).collect(), tgts.iter().map(|i| env[*i].clone()).collect())
    });
    match r {
        Ok(term) => ok(lax_out(&term)),
        Err(shared) => {
            let st = shared.borrow().clone();
            json!({"tag": "err", "variant": "HandleOutlivesBuilder", "val": lax_out(&st)})
        }
    }
}
