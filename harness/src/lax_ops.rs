//! Interpreter of `lax.*` ops (lax builder histories, lax categorical operations, conversions).
use crate::codec::*;
use serde_json::{json, Value};

pub fn run(op: &str, _a: &Value) -> Value {
    json!({"tag": "unknown_op", "op": op})
}
