//! Interpreter of `lax.*`, `laxf.*` and `var.*` ops: lax builder calls, lax categorical operations,
//! conversions, lax functors / optics and the `Var` interface.
//! Stateful calls take the pre-state in `args.pre` (all fields of the lax diagram are public and
//! are the abstract state) and log the post-state next to the returned value, also after a panic.
use crate::codec::*;
use crate::strict_ops::vec as sv;
use crate::tables;
use open_hypergraphs::array::vec::{VecArray, VecKind};
use open_hypergraphs::category::*;
use open_hypergraphs::lax;
use open_hypergraphs::lax::functor::Functor as LaxFunctor;
use open_hypergraphs::lax::{EdgeId, NodeId};
use open_hypergraphs::strict::vec::FiniteFunction;
use serde_json::{json, Value};
use std::panic::{catch_unwind, AssertUnwindSafe};

fn nids(v: &Value) -> Vec<NodeId> {
    vec_us(v).into_iter().map(NodeId).collect()
}
fn eids(v: &Value) -> Vec<EdgeId> {
    vec_us(v).into_iter().map(EdgeId).collect()
}
fn ff(v: &Value) -> FiniteFunction {
    sv::ff(v)
}

/// run a mutating call on the pre-state; the post-state is logged whatever happens
fn stateful<F: FnOnce(&mut LaxOH) -> Value>(a: &Value, f: F) -> Value {
    let mut st = lax_in(&a["pre"]);
    let r = catch_unwind(AssertUnwindSafe(|| f(&mut st)));
    match r {
        Ok(mut v) => {
            v["post"] = lax_out(&st);
            v
        }
        Err(_) => {
            let msg = crate::LAST_PANIC.with(|p| p.borrow_mut().take()).unwrap_or_else(|| "panic".into());
            let msg: String = msg.chars().take(200).collect();
            json!({"tag": "panic", "msg": msg, "post": lax_out(&st)})
        }
    }
}

#[derive(Clone)]
pub struct LaxTableFunctor {
    pub t: tables::FunctorTable,
}
impl LaxFunctor<O, A, O, A> for LaxTableFunctor {
    fn map_object(&self, o: &O) -> impl ExactSizeIterator<Item = O> {
        self.t.obj(*o).clone().into_iter()
    }
    fn map_operation(&self, a: &A, source: &[O], target: &[O]) -> LaxOH {
        // images are lax diagrams: when the table gives a lax presentation (possibly with pending
        // unifications of its own) that one is returned, otherwise the strict image converted
        match self.t.lax_op(*a, source, target) {
            Some(l) => lax_in(l),
            None => lax::OpenHypergraph::from_strict(sv::oh(self.t.op(*a, source, target))),
        }
    }
    fn map_arrow(&self, f: &LaxOH) -> LaxOH {
        lax::functor::dyn_functor::define_map_arrow(self, f)
    }
}

#[derive(Clone)]
pub struct LaxTableOptic {
    pub t: tables::OpticTable,
}
impl lax::optic::Optic<O, A, O, A> for LaxTableOptic {
    fn fwd_object(&self, o: &O) -> Vec<O> {
        self.t.fwd.obj(*o).clone()
    }
    fn fwd_operation(&self, a: &A, source: &[O], target: &[O]) -> LaxOH {
        lax::OpenHypergraph::from_strict(sv::oh(self.t.fwd.op(*a, source, target)))
    }
    fn rev_object(&self, o: &O) -> Vec<O> {
        self.t.rev.obj(*o).clone()
    }
    fn rev_operation(&self, a: &A, source: &[O], target: &[O]) -> LaxOH {
        lax::OpenHypergraph::from_strict(sv::oh(self.t.rev.op(*a, source, target)))
    }
    fn residual(&self, a: &A) -> Vec<O> {
        self.t.residual.get(&a.0).cloned().unwrap_or_default()
    }
}

fn o_icf(x: &open_hypergraphs::strict::vec::IndexedCoproduct<FiniteFunction>) -> Value {
    sv::o_icf(x)
}

pub fn run(op: &str, a: &Value) -> Value {
    match op {
        // ============================================================ builder calls (C11)
        "lax.new_node" => stateful(a, |f| val(nat(f.new_node(int(&a["label"])).0))),
        "lax.new_edge" => stateful(a, |f| val(nat(f.new_edge(A(int(&a["x"])), (nids(&a["s"]), nids(&a["t"]))).0))),
        "lax.new_operation" => stateful(a, |f| {
            let (e, (s, t)) = f.new_operation(A(int(&a["x"])), vec_o(&a["a"]), vec_o(&a["b"]));
            val(json!({"edge": nat(e.0), "s": out_node_ids(&s), "t": out_node_ids(&t)}))
        }),
        "lax.add_edge_source" => stateful(a, |f| val(nat(f.add_edge_source(EdgeId(us(&a["e"])), int(&a["label"])).0))),
        "lax.add_edge_target" => stateful(a, |f| val(nat(f.add_edge_target(EdgeId(us(&a["e"])), int(&a["label"])).0))),
        "lax.unify" => stateful(a, |f| {
            f.unify(NodeId(us(&a["v"])), NodeId(us(&a["w"])));
            val(json!(0))
        }),
        "lax.delete_nodes" => stateful(a, |f| {
            f.delete_nodes(&nids(&a["ids"]));
            val(json!(0))
        }),
        "lax.h.delete_nodes" => stateful(a, |f| {
            f.hypergraph.delete_nodes(&nids(&a["ids"]));
            val(json!(0))
        }),
        "lax.h.delete_nodes_witness" => stateful(a, |f| {
            let w = f.hypergraph.delete_nodes_witness(&nids(&a["ids"]));
            val(Value::Array(w.into_iter().map(|x| opt(x.map(nat))).collect()))
        }),
        "lax.delete_edges" => stateful(a, |f| {
            f.delete_edges(&eids(&a["ids"]));
            val(json!(0))
        }),
        #[allow(deprecated)]
        "lax.h.delete_edge" => stateful(a, |f| {
            f.hypergraph.delete_edge(&eids(&a["ids"]));
            val(json!(0))
        }),
        "lax.map_nodes" => {
            let tbl = vec_o(&a["tbl"]);
            let f = lax_in(&a["pre"]);
            let g = f.map_nodes(|o| tbl[o as usize]);
            json!({"tag": "val", "val": 0, "post": lax_out(&g)})
        }
        "lax.map_edges" => {
            let tbl = vec_a(&a["tbl"]);
            let f = lax_in(&a["pre"]);
            let g = f.map_edges(|x| tbl[x.0 as usize]);
            json!({"tag": "val", "val": 0, "post": lax_out(&g)})
        }
        "lax.with_nodes" => {
            let newnodes = vec_o(&a["nodes"]);
            let f = lax_in(&a["pre"]);
            match f.with_nodes(|_| newnodes) {
                Some(g) => json!({"tag": "some", "val": lax_out(&g)}),
                None => none(),
            }
        }
        "lax.with_edges" => {
            let newedges = vec_a(&a["edges"]);
            let f = lax_in(&a["pre"]);
            match f.with_edges(|_| newedges) {
                Some(g) => json!({"tag": "some", "val": lax_out(&g)}),
                None => none(),
            }
        }
        // ============================================================ quotient (C09)
        "lax.quotient" => stateful(a, |f| match f.quotient() {
            Ok(q) => ok(sv::o_ff(&q)),
            Err(q) => json!({"tag": "err", "variant": "Err", "val": sv::o_ff(&q)}),
        }),
        #[allow(deprecated)]
        "lax.quotient_witness" => stateful(a, |f| match f.quotient_witness() {
            Ok(q) => ok(sv::o_ff(&q)),
            Err(q) => json!({"tag": "err", "variant": "Err", "val": sv::o_ff(&q)}),
        }),
        "lax.h.quotient" => stateful(a, |f| match f.hypergraph.quotient() {
            Ok(q) => ok(sv::o_ff(&q)),
            Err(q) => json!({"tag": "err", "variant": "Err", "val": sv::o_ff(&q)}),
        }),
        "lax.h.coequalizer" => val(sv::o_ff(&lax_in(&a["pre"]).hypergraph.coequalizer())),
        "lax.is_strict" => val(json!(lax_in(&a["pre"]).hypergraph.is_strict())),
        // ============================================================ conversions (C10)
        "lax.from_strict" => val(lax_out(&lax::OpenHypergraph::from_strict(sv::oh(&a["f"])))),
        "lax.to_strict" => val(sv::o_oh(&lax_in(&a["pre"]).to_strict())),
        #[allow(deprecated)]
        "lax.to_open_hypergraph" => val(sv::o_oh(&lax_in(&a["pre"]).to_open_hypergraph())),
        "lax.h.to_hypergraph" => val(sv::o_hg(&lax_in(&a["pre"]).hypergraph.to_hypergraph())),
        "lax.roundtrip_strict" => val(sv::o_oh(&lax::OpenHypergraph::from_strict(sv::oh(&a["f"])).to_strict())),
        "lax.roundtrip_lax" => val(lax_out(&lax::OpenHypergraph::from_strict(lax_in(&a["pre"]).to_strict()))),
        // ============================================================ categorical operations (C02, C04, C10)
        "lax.empty" => val(lax_out(&LaxOH::empty())),
        "lax.identity_trait" => val(lax_out(&<LaxOH as Arrow>::identity(vec_o(&a["w"])))),
        "lax.spider_trait" => opt(<LaxOH as Spider<VecKind>>::spider(ff(&a["s"]), ff(&a["t"]), vec_o(&a["w"])).map(|x| lax_out(&x))),
        "lax.tensor_trait" => val(lax_out(&<LaxOH as Monoidal>::tensor(&lax_in(&a["f"]), &lax_in(&a["g"])))),
        "lax.unit" => val(json!(<LaxOH as Monoidal>::unit().iter().map(|o: &O| *o).collect::<Vec<O>>())),
        "lax.tensor" => val(lax_out(&lax_in(&a["f"]).tensor(&lax_in(&a["g"])))),
        "lax.tensor_bitor" => val(lax_out(&(&lax_in(&a["f"]) | &lax_in(&a["g"])))),
        "lax.tensor3" => {
            let (f, g, h) = (lax_in(&a["f"]), lax_in(&a["g"]), lax_in(&a["h"]));
            let u = LaxOH::empty();
            val(json!({"lhs": lax_out(&f.tensor(&g).tensor(&h)), "rhs": lax_out(&f.tensor(&g.tensor(&h))),
                       "ul": lax_out(&u.tensor(&f)), "ur": lax_out(&f.tensor(&u))}))
        }
        "lax.lax_compose" => opt(lax_in(&a["f"]).lax_compose(&lax_in(&a["g"])).map(|x| lax_out(&x))),
        "lax.compose" => opt(Arrow::compose(&lax_in(&a["f"]), &lax_in(&a["g"])).map(|x| lax_out(&x))),
        "lax.compose_shr" => opt((&lax_in(&a["f"]) >> &lax_in(&a["g"])).map(|x| lax_out(&x))),
        "lax.identity" => val(lax_out(&LaxOH::identity(vec_o(&a["w"])))),
        "lax.h.discrete" => {
            let h = lax::Hypergraph::<O, A>::discrete(vec_o(&a["w"]));
            val(lax_out(&LaxOH { hypergraph: h, sources: vec![], targets: vec![] }))
        }
        "lax.twist" => val(lax_out(&<LaxOH as SymmetricMonoidal>::twist(vec_o(&a["a"]), vec_o(&a["b"])))),
        "lax.spider" => opt(LaxOH::spider(ff(&a["s"]), ff(&a["t"]), vec_o(&a["w"])).map(|x| lax_out(&x))),
        "lax.half_spider" => opt(<LaxOH as Spider<VecKind>>::half_spider(ff(&a["s"]), vec_o(&a["w"])).map(|x| lax_out(&x))),
        "lax.dagger" => val(lax_out(&lax_in(&a["f"]).dagger())),
        "lax.singleton" => val(lax_out(&LaxOH::singleton(A(int(&a["x"])), vec_o(&a["a"]), vec_o(&a["b"])))),
        "lax.source" => val(json!(Arrow::source(&lax_in(&a["f"])))),
        "lax.target" => val(json!(Arrow::target(&lax_in(&a["f"])))),
        "lax.tensor_assign" => stateful(a, |f| {
            f.tensor_assign(lax_in(&a["g"]));
            val(json!(0))
        }),
        "lax.append" => stateful(a, |f| {
            let (s, t) = f.append(lax_in(&a["g"]));
            val(json!({"s": out_node_ids(&s), "t": out_node_ids(&t)}))
        }),
        "lax.h.coproduct_assign" => stateful(a, |f| {
            f.hypergraph.coproduct_assign(lax_in(&a["g"]).hypergraph);
            val(json!(0))
        }),
        // ============================================================ serde (C11)
        "lax.serde_roundtrip" => {
            let f = lax_in(&a["pre"]);
            let text = serde_json::to_string(&f).expect("serialize");
            let as_value: Value = serde_json::from_str(&text).expect("json");
            let back: LaxOH = serde_json::from_str(&text).expect("deserialize");
            val(json!({"json": as_value, "back": lax_out(&back)}))
        }
        // ============================================================ functors (C12, C13), optics (C14)
        "laxf.dyn_map_arrow" => {
            let t = LaxTableFunctor { t: tables::FunctorTable::from_json(&a["F"]) };
            val(lax_out(&t.map_arrow(&lax_in(&a["f"]))))
        }
        "laxf.identity" => {
            let i = lax::functor::dyn_functor::Identity;
            val(lax_out(&<_ as LaxFunctor<O, A, O, A>>::map_arrow(&i, &lax_in(&a["f"]))))
        }
        "laxf.try_define_map_arrow" => {
            let t = LaxTableFunctor { t: tables::FunctorTable::from_json(&a["F"]) };
            opt(lax::functor::try_define_map_arrow(&t, &lax_in(&a["f"])).map(|x| lax_out(&x)))
        }
        "laxf.map_arrow_witness" => {
            let t = LaxTableFunctor { t: tables::FunctorTable::from_json(&a["F"]) };
            opt(lax::functor::map_arrow_witness(&t, &lax_in(&a["f"])).map(|(x, w)| json!({"out": lax_out(&x), "witness": o_icf(&w)})))
        }
        "laxf.optic_map_arrow" => {
            use lax::optic::Optic;
            let t = LaxTableOptic { t: tables::OpticTable::from_json(&a["optic"]) };
            val(lax_out(&t.map_arrow(lax_in(&a["f"]))))
        }
        "laxf.optic_map_adapted" => {
            use lax::optic::Optic;
            let t = LaxTableOptic { t: tables::OpticTable::from_json(&a["optic"]) };
            val(lax_out(&t.map_adapted(lax_in(&a["f"]))))
        }
        // ============================================================ Var interface, forgetting (C19)
        "var.script" => crate::var_ops::run_script(a),
        "var.script_eval" => {
            // end to end: build the expression, forget the variable copies, strictify, evaluate
            let built = crate::var_ops::run_script(a);
            if built["tag"] != "ok" {
                return json!({"tag": "val", "val": {"built": built, "outs": []}});
            }
            let term = lax_in(&built["val"]);
            let g = lax::var::forget::forget(&term);
            let s = g.clone().to_strict();
            let mut outs = vec![];
            for inp in arr(&a["inputs"]) {
                let inputs: Vec<u8> = vec_us(inp).into_iter().map(|x| x as u8).collect();
                let (r, _) = sv::eval_logged(&s, inputs);
                outs.push(opt(r.map(|v| json!(v))));
            }
            val(json!({"built": built, "forgot": lax_out(&g), "outs": outs}))
        }
        "var.forget" => val(lax_out(&lax::var::forget::forget(&lax_in(&a["f"])))),
        "var.forget_monogamous" => val(lax_out(&lax::var::forget::forget_monogamous(&lax_in(&a["f"])))),
        "var.forget_eval" => {
            // forget, strictify, evaluate on each input vector
            let g = lax::var::forget::forget(&lax_in(&a["f"]));
            let s = g.clone().to_strict();
            let mut outs = vec![];
            for inp in arr(&a["inputs"]) {
                let inputs: Vec<u8> = vec_us(inp).into_iter().map(|x| x as u8).collect();
                let (r, _) = sv::eval_logged(&s, inputs);
                outs.push(opt(r.map(|v| json!(v))));
            }
            val(json!({"forgot": lax_out(&g), "outs": outs}))
        }
        _ => json!({"tag": "unknown_op", "op": op}),
    }
}

#[allow(dead_code)]
fn _unused(_: VecArray<usize>) {}
