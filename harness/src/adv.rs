//! `AdvKind`: a second array backend, defined outside the library, that satisfies the documented
//! array contract but resolves every open choice differently from the Vec backend (C20):
//!   * `argsort`: order of ties chosen by the seed (reverse / rotated), still a sorting permutation
//!   * `connected_components`: component numbers permuted by the seed (still dense 0..k)
//!   * `sparse_bincount`: key order permuted by the seed
//!   * `scatter`: filler taken from another element; duplicates resolved first-wins
//! Everything else follows the scalar definitions.
use open_hypergraphs::array::*;
use std::cell::Cell;
use std::ops::{Add, Deref, DerefMut, RangeBounds, Sub};

use crate::rng::Rng;

thread_local! {
    static SEED: Cell<u64> = const { Cell::new(1) };
    static CALLS: Cell<u64> = const { Cell::new(0) };
}
pub fn set_seed(s: u64) {
    SEED.with(|c| c.set(s));
    CALLS.with(|c| c.set(0));
}
fn rng() -> Rng {
    // a fresh stream per primitive call, deterministic in (seed, call number)
    let n = CALLS.with(|c| {
        let v = c.get();
        c.set(v + 1);
        v
    });
    Rng::new(SEED.with(|c| c.get()).wrapping_mul(1_000_003).wrapping_add(n))
}

#[derive(PartialEq, Eq, Clone, Debug)]
pub struct AdvKind {}

#[derive(Clone, Debug, PartialEq)]
pub struct AdvArray<T>(pub Vec<T>);

impl ArrayKind for AdvKind {
    type Type<T> = AdvArray<T>;
    type I = usize;
    type Index = AdvArray<usize>;
    type Slice<'a, T: 'a> = &'a [T];
}

impl AsRef<AdvArray<usize>> for AdvArray<usize> {
    fn as_ref(&self) -> &AdvArray<usize> {
        self
    }
}
impl AsMut<AdvArray<usize>> for AdvArray<usize> {
    fn as_mut(&mut self) -> &mut AdvArray<usize> {
        self
    }
}
impl<T> Deref for AdvArray<T> {
    type Target = Vec<T>;
    fn deref(&self) -> &Self::Target {
        &self.0
    }
}
impl<T> DerefMut for AdvArray<T> {
    fn deref_mut(&mut self) -> &mut Self::Target {
        &mut self.0
    }
}

fn resolve<R: RangeBounds<usize>>(n: usize, r: R) -> std::ops::Range<usize> {
    use std::ops::Bound::*;
    let start = match r.start_bound() {
        Included(i) => *i,
        Excluded(i) => *i + 1,
        Unbounded => 0,
    };
    let end = match r.end_bound() {
        Included(i) => *i + 1,
        Excluded(i) => *i,
        Unbounded => n,
    };
    start..end
}

impl<T: Clone> Array<AdvKind, T> for AdvArray<T> {
    fn empty() -> Self {
        AdvArray(vec![])
    }
    fn len(&self) -> usize {
        self.0.len()
    }
    fn from_slice(slice: &[T]) -> Self {
        AdvArray(slice.to_vec())
    }
    fn concatenate(&self, other: &Self) -> Self {
        let mut v = self.0.clone();
        v.extend(other.0.iter().cloned());
        AdvArray(v)
    }
    fn fill(x: T, n: usize) -> Self {
        AdvArray(vec![x; n])
    }
    fn get(&self, i: usize) -> T {
        self.0[i].clone()
    }
    fn get_range<R: RangeBounds<usize>>(&self, rb: R) -> &[T] {
        &self.0[resolve(self.0.len(), rb)]
    }
    fn set_range<R: RangeBounds<usize>>(&mut self, rb: R, v: &AdvArray<T>) {
        let r = resolve(self.0.len(), rb);
        self.0[r].clone_from_slice(&v.0)
    }
    fn gather(&self, idx: &[usize]) -> Self {
        AdvArray(idx.iter().map(|i| self.0[*i].clone()).collect())
    }
    fn scatter(&self, idx: &[usize], n: usize) -> Self {
        if self.0.is_empty() {
            assert!(idx.is_empty());
            return AdvArray(vec![]);
        }
        // filler: some other element of self; duplicates: first write wins
        let mut r = rng();
        let filler = self.0[r.below(self.0.len())].clone();
        let mut y = vec![filler; n];
        let mut written = vec![false; n];
        for (i, x) in self.0.iter().enumerate() {
            if !written[idx[i]] {
                y[idx[i]] = x.clone();
                written[idx[i]] = true;
            }
        }
        AdvArray(y)
    }
    fn scatter_assign(&mut self, ixs: &AdvArray<usize>, values: Self) {
        // duplicates: first write wins
        let mut written = std::collections::HashSet::new();
        for (i, x) in ixs.0.iter().zip(values.0.iter()) {
            if written.insert(*i) {
                self.0[*i] = x.clone();
            }
        }
    }
    fn scatter_assign_constant(&mut self, ixs: &AdvArray<usize>, arg: T) {
        for &i in ixs.0.iter().rev() {
            self.0[i] = arg.clone();
        }
    }
}

impl Add<&AdvArray<usize>> for usize {
    type Output = AdvArray<usize>;
    fn add(self, rhs: &AdvArray<usize>) -> AdvArray<usize> {
        AdvArray(rhs.0.iter().map(|x| x + self).collect())
    }
}
impl<T: Clone + Add<Output = T>> Add<AdvArray<T>> for AdvArray<T> {
    type Output = AdvArray<T>;
    fn add(self, rhs: AdvArray<T>) -> AdvArray<T> {
        assert_eq!(self.0.len(), rhs.0.len());
        AdvArray(self.0.iter().zip(rhs.0.iter()).map(|(x, y)| x.clone() + y.clone()).collect())
    }
}
impl<T: Clone + Sub<Output = T>> Sub<AdvArray<T>> for AdvArray<T> {
    type Output = AdvArray<T>;
    fn sub(self, rhs: AdvArray<T>) -> AdvArray<T> {
        assert_eq!(self.0.len(), rhs.0.len());
        AdvArray(self.0.iter().zip(rhs.0.iter()).map(|(x, y)| x.clone() - y.clone()).collect())
    }
}

impl<T: Ord + Clone> OrdArray<AdvKind, T> for AdvArray<T> {
    fn argsort(&self) -> AdvArray<usize> {
        // a sorting permutation whose tie order is chosen by the seed
        let mut r = rng();
        let n = self.0.len();
        let mut tiebreak: Vec<usize> = (0..n).collect();
        r.shuffle(&mut tiebreak);
        let mut indices: Vec<usize> = (0..n).collect();
        indices.sort_by(|&i, &j| self.0[i].cmp(&self.0[j]).then(tiebreak[i].cmp(&tiebreak[j])));
        AdvArray(indices)
    }
}

impl NaturalArray<AdvKind> for AdvArray<usize> {
    fn max(&self) -> Option<usize> {
        self.0.iter().max().copied()
    }
    fn cumulative_sum(&self) -> Self {
        let mut v = Vec::with_capacity(self.0.len() + 1);
        let mut a = 0;
        v.push(0);
        for x in self.0.iter() {
            a += x;
            v.push(a);
        }
        AdvArray(v)
    }
    fn arange(start: &usize, stop: &usize) -> Self {
        assert!(stop >= start);
        AdvArray((*start..*stop).collect())
    }
    fn repeat(&self, x: &[usize]) -> Self {
        assert_eq!(self.0.len(), x.len());
        let mut v = vec![];
        for (k, xi) in self.0.iter().zip(x) {
            for _ in 0..*k {
                v.push(*xi);
            }
        }
        AdvArray(v)
    }
    fn quot_rem(&self, d: usize) -> (Self, Self) {
        assert!(d != 0);
        (AdvArray(self.0.iter().map(|x| x / d).collect()), AdvArray(self.0.iter().map(|x| x % d).collect()))
    }
    fn mul_constant_add(&self, c: usize, x: &Self) -> Self {
        assert_eq!(self.0.len(), x.0.len());
        AdvArray(self.0.iter().zip(x.0.iter()).map(|(s, x)| s * c + x).collect())
    }
    fn connected_components(sources: &Self, targets: &Self, n: usize) -> (Self, usize) {
        assert_eq!(sources.0.len(), targets.0.len());
        // label propagation to a fixpoint (least member), then a seeded dense renumbering
        let mut lab: Vec<usize> = (0..n).collect();
        loop {
            let mut changed = false;
            for (u, v) in sources.0.iter().zip(targets.0.iter()) {
                let m = lab[*u].min(lab[*v]);
                if lab[*u] != m {
                    lab[*u] = m;
                    changed = true;
                }
                if lab[*v] != m {
                    lab[*v] = m;
                    changed = true;
                }
            }
            // path shortening
            for i in 0..n {
                let l = lab[lab[i]];
                if l != lab[i] {
                    lab[i] = l;
                    changed = true;
                }
            }
            if !changed {
                break;
            }
        }
        let mut reps: Vec<usize> = lab.clone();
        reps.sort_unstable();
        reps.dedup();
        let k = reps.len();
        let mut perm: Vec<usize> = (0..k).collect();
        let mut r = rng();
        r.shuffle(&mut perm);
        let number: std::collections::HashMap<usize, usize> = reps.iter().cloned().zip(perm.into_iter()).collect();
        (AdvArray(lab.iter().map(|l| number[l]).collect()), k)
    }
    fn bincount(&self, size: usize) -> AdvArray<usize> {
        let mut c = vec![0; size];
        for &i in self.0.iter() {
            c[i] += 1;
        }
        AdvArray(c)
    }
    fn sparse_bincount(&self) -> (AdvArray<usize>, AdvArray<usize>) {
        let mut keys: Vec<usize> = self.0.clone();
        keys.sort_unstable();
        keys.dedup();
        let mut r = rng();
        r.shuffle(&mut keys);
        let counts = keys.iter().map(|k| self.0.iter().filter(|x| *x == k).count()).collect();
        (AdvArray(keys), AdvArray(counts))
    }
    fn zero(&self) -> AdvArray<usize> {
        AdvArray(self.0.iter().enumerate().filter(|(_, v)| **v == 0).map(|(i, _)| i).collect())
    }
    fn scatter_sub_assign(&mut self, ixs: &AdvArray<usize>, rhs: &AdvArray<usize>) {
        for i in (0..ixs.0.len()).rev() {
            self.0[ixs.0[i]] -= rhs.0[i];
        }
    }
}
