#!/usr/bin/env python3
"""Replaces Appendix D of DESIGN.md by the current output of summarize.py."""
import os, subprocess
ROOT = os.path.dirname(os.path.dirname(os.path.abspath(__file__)))
p = os.path.join(ROOT, "DESIGN.md")
s = open(p).read()
head = "## Appendix D"
i = s.index(head)
line_end = s.index("\n", i)
out = subprocess.run(["python3", os.path.join(ROOT, "selftest", "summarize.py")], capture_output=True, text=True).stdout
open(p, "w").write(s[:line_end + 1] + "\n" + out)
print("Appendix D:", len(out.splitlines()), "lines")
