#!/usr/bin/env python3
"""seed_eval.py <worktree> <seed-id> <property> [check ids...]

Confirms a seeded breaking change produced in a scratch worktree (existing suite passes with it,
its demonstration fails with it and passes without it), stores it under /verif/seeded/<seed-id>/,
runs the given checks (default: the property's quick check) against /repo with the patch applied,
undoes the patch, and records everything in meta.json.  The patch is never committed to /repo."""
import sys, os, subprocess, json, shutil, time

def sh(cmd, cwd=None, timeout=3600):
    env = dict(os.environ, CARGO_NET_OFFLINE="true", RUST_BACKTRACE="0")
    r = subprocess.run(cmd, shell=True, cwd=cwd, env=env, stdout=subprocess.PIPE, stderr=subprocess.STDOUT, text=True, timeout=timeout)
    return r.returncode, r.stdout

def main():
    wt, sid, prop = sys.argv[1], sys.argv[2], sys.argv[3]
    checks = sys.argv[4:] or [prop]
    tier = os.environ.get("SEED_TIER", "quick")
    out = {"seed": sid, "property": prop, "ran": []}
    dest = os.path.join("/verif/seeded", sid)
    os.makedirs(dest, exist_ok=True)
    if os.path.exists(os.path.join(dest, "meta.json")):
        try:
            out["note"] = json.load(open(os.path.join(dest, "meta.json"))).get("note", "")
        except Exception:
            pass
    patch = os.path.join(wt, "patch.diff")
    demo = os.path.join(wt, "tests", "seed_demo.rs")
    assert os.path.exists(patch) and os.path.exists(demo), "missing patch.diff or tests/seed_demo.rs"
    # 1. with the change: existing suite passes, demonstration fails
    rc, o = sh("git stash list; git status --short | head", cwd=wt)
    # start from pristine sources (agents share one stash across worktrees and may have left a mix behind)
    sh("git checkout -- src", cwd=wt)
    rc2, o2 = sh("git apply patch.diff", cwd=wt)
    assert rc2 == 0, "cannot apply patch in worktree: " + o2
    rc_suite, o_suite = sh("(cargo test --offline --features serde --lib --test lib --test test_array --test serde_tests; cargo test --offline --features serde --doc) 2>&1 | grep -E '^test result|FAILED|panicked|error' | head -20", cwd=wt)
    suite_ok = "FAILED" not in o_suite and "test result: ok" in o_suite
    out["ran"].append({"cmd": "cargo test --offline --features serde --lib --test lib --test test_array --test serde_tests; ... --doc   (patch applied; every target except the demonstration)", "ok": suite_ok, "summary": o_suite.strip().splitlines()[:8]})
    rc_demo, o_demo = sh("cargo test --offline --features serde --test seed_demo 2>&1 | tail -15", cwd=wt)
    demo_fails = "test result: FAILED" in o_demo or "FAILED" in o_demo
    out["ran"].append({"cmd": "cargo test --offline --test seed_demo   (patch applied)", "fails_as_expected": demo_fails})
    # 2. without the change: demonstration passes
    sh("git apply -R patch.diff", cwd=wt)
    rc_demo2, o_demo2 = sh("cargo test --offline --features serde --test seed_demo 2>&1 | tail -8", cwd=wt)
    demo_passes = "test result: ok" in o_demo2 and "FAILED" not in o_demo2
    out["ran"].append({"cmd": "cargo test --offline --test seed_demo   (patch reverted)", "passes_as_expected": demo_passes})
    out["confirmed"] = bool(suite_ok and demo_fails and demo_passes)
    shutil.copy(patch, os.path.join(dest, "patch.diff"))
    shutil.copy(demo, os.path.join(dest, "seed_demo.rs"))
    if os.path.exists(os.path.join(wt, "NOTES.md")):
        shutil.copy(os.path.join(wt, "NOTES.md"), os.path.join(dest, "NOTES.md"))
    # 3. our checks against /repo with the patch applied
    detected = {}
    if out["confirmed"] and os.environ.get("SEED_SCRATCH"):
        # run the checks in a scratch copy of the committed /verif and /repo instead of patching /repo
        # (usable while something else needs /repo untouched)
        base = "/tmp/vse_%d" % os.getpid()
        sh("rm -rf %s && mkdir -p %s/verif %s/repo && git -C /verif archive HEAD | tar -x -C %s/verif && git -C /repo archive HEAD | tar -x -C %s/repo" % (base, base, base, base, base))
        sh("sed -i 's#path = \"/repo\"#path = \"%s/repo\"#' %s/verif/harness/Cargo.toml" % (base, base))
        rc, o = sh("git apply %s" % os.path.join(dest, "patch.diff"), cwd=base + "/repo")
        assert rc == 0, "patch does not apply to the scratch copy: " + o
        for c in checks:
            t0 = time.time()
            rc, o = sh("cd %s/verif && VERIF_REPO=%s/repo ./check %s --tier %s" % (base, base, c, tier), timeout=7200)
            viol = [l[:300].replace(base, "") for l in o.splitlines() if l.startswith("VIOLATION")]
            detected[c] = {"exit": rc, "violations": viol[:6], "wall_s": round(time.time() - t0, 1), "last": o.strip().splitlines()[-1][:300] if o.strip() else "", "scratch_copy": True}
            print(c, "exit", rc, viol[:3], flush=True)
        shutil.rmtree(base, ignore_errors=True)
    elif out["confirmed"]:
        rc, o = sh("git -C /repo status --porcelain")
        assert o.strip() == "", "/repo is not clean: " + o
        rc, o = sh("git -C /repo apply %s" % os.path.join(dest, "patch.diff"))
        assert rc == 0, "patch does not apply to /repo: " + o
        try:
            for c in checks:
                t0 = time.time()
                rc, o = sh("cd /verif && ./check %s --tier %s" % (c, tier), timeout=7200)
                viol = [l[:300] for l in o.splitlines() if l.startswith("VIOLATION")]
                detected[c] = {"exit": rc, "violations": viol[:6], "wall_s": round(time.time() - t0, 1), "last": o.strip().splitlines()[-1][:300] if o.strip() else ""}
                print(c, "exit", rc, viol[:3], flush=True)
        finally:
            sh("git -C /repo checkout -- .")
    out["checks"] = detected
    out["detected_by"] = [c for c, d in detected.items() if d["exit"] == 1]
    notes = open(os.path.join(dest, "NOTES.md")).read() if os.path.exists(os.path.join(dest, "NOTES.md")) else ""
    out["needs_to_manifest"] = notes[:1500]
    json.dump(out, open(os.path.join(dest, "meta.json"), "w"), indent=1)
    print(json.dumps({k: out[k] for k in ("seed", "confirmed", "detected_by")}))

if __name__ == "__main__":
    main()
