#!/bin/bash
# run every quick check once on the current tree (refreshes evidence/*.json); prints one line per property
cd "$(dirname "$0")/.."
for p in C01 C02 C03 C04 C05 C06 C07 C08 C09 C10 C11 C12 C13 C14 C15 C16 C17 C18 C19 C20; do
  s=$(date +%s); out=$(./check $p --tier quick 2>&1); rc=$?
  echo "$p exit=$rc wall=$(( $(date +%s) - s ))s $(echo "$out" | grep -E 'VIOLATION|TOOL-ERROR|KNOWN' | head -3 | cut -c1-200)"
done
