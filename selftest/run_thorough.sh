#!/bin/bash
# run the thorough tier of the given properties one after the other; log exit codes and wall time
cd "$(dirname "$0")/.."
(cd harness && cargo build --offline -q && cargo build --offline -q --release)
for p in "$@"; do
  s=$(date +%s)
  ./check $p --tier thorough > thorough_$p.log 2>&1
  rc=$?
  echo "$p exit=$rc wall=$(( $(date +%s) - s ))s $(tail -1 thorough_$p.log | cut -c1-200)"
done
