#!/usr/bin/env python3
"""mutsweep.py screen [N] [JOBS] | check [ID ...] | report

A systematic sweep with small textual mutants of /repo/src (complements the seeded changes, which
are few and hand-made).

  screen   generates single-line mutants (operator table below), samples N of them (seeded), and in
           JOBS scratch copies of the repository (under /tmp, removed afterwards) keeps those that
           compile and pass the pinned suite (lib, tests/lib, test_array, serde_tests; doc tests for
           survivors).  Survivors are stored as selftest/sweep/<id>.diff + sweep/index.json.
  check    for every survivor not yet checked: applies the diff to /repo (never committed), runs the
           quick checks of the properties mapped to the mutated file, undoes it, records the verdict.
  report   prints a markdown table.

Never run `check` while another job uses /repo."""
import sys, os, re, json, subprocess, random, shutil, time, hashlib
from concurrent.futures import ThreadPoolExecutor
ROOT = os.path.dirname(os.path.dirname(os.path.abspath(__file__)))
SW = os.path.join(ROOT, "selftest", "sweep")
IDX = os.path.join(SW, "index.json")

# (name, regex, replacement); applied to the first match of the regex on a code line
OPS = [
    ("inj01", r"\binject0\b", "inject1"), ("inj10", r"\binject1\b", "inject0"),
    ("plus1-drop", r" \+ 1\b", ""), ("plus-minus", r" \+ ", " - "), ("minus-plus", r" - ", " + "),
    ("lt-le", r" < ", " <= "), ("le-lt", r" <= ", " < "), ("gt-ge", r" > ", " >= "), ("ge-gt", r" >= ", " > "),
    ("eq-ne", r" == ", " != "), ("ne-eq", r" != ", " == "),
    ("and-or", r" && ", " || "), ("or-and", r" \|\| ", " && "),
    ("true-false", r"\btrue\b", "false"), ("false-true", r"\bfalse\b", "true"),
    ("s-t", r"\.s\b", ".t"), ("t-s", r"\.t\b", ".s"),
    ("src-tgt", r"\bsources\b", "targets"), ("tgt-src", r"\btargets\b", "sources"),
    ("source-target", r"\bsource\(\)", "target()"), ("target-source", r"\btarget\(\)", "source()"),
    ("zero-one", r"\bzero\(\)", "one()"), ("one-zero", r"\bone\(\)", "zero()"),
    ("not-drop", r"!(?=[a-z(])", ""),
    ("some-none", r"\breturn None\b", "return Some(Default::default())"),
    ("w-x", r"\.w\b", ".x"),
    ("first-second", r"\.0\b", ".1"), ("second-first", r"\.1\b", ".0"),
    ("cumsum-id", r"\.cumulative_sum\(\)", ".clone()"),
    ("rev-drop", r"\.rev\(\)", ""),
    ("lhs-rhs", r"\blhs\b", "rhs"), ("self-other", r"\bself\b(?=[^:])", "other"), ("other-self", r"\bother\b", "self"),
    ("f-g", r"\bf\b", "g"), ("g-f", r"\bg\b", "f"),
]

# second operator set (SWEEP_OPS=2): statement deletion, swapped call arguments, min/max, off-by-one constants
OPS2 = [
    ("stmt-del", r"^(\s*)(?!let |return|pub |fn |use |if |else|for |while |match |\}|\{|#|//)([A-Za-z_][^;{}]*;)\s*$", r"\1;"),
    ("arg-swap", r"\(([A-Za-z_&][A-Za-z0-9_.&]*(?:\(\))?), ([A-Za-z_&][A-Za-z0-9_.&]*(?:\(\))?)\)", r"(\2, \1)"),
    ("min-max", r"\.min\(", ".max("), ("max-min", r"\.max\(", ".min("),
    ("lt-gt", r" < ", " > "), ("gt-lt", r" > ", " < "),
    ("some-drop-q", r"\?;", ".unwrap();"),
    ("is_empty-not", r"(\b[a-z_.0-9]+)\.is_empty\(\)", r"!\1.is_empty()"),
    ("len-minus1", r"\.len\(\)(?! [-+])", ".len() - 1"),
    ("range-incl", r"\.\.(?=[a-z(])", "..="),
    ("iter-skip1", r"\.iter\(\)", ".iter().skip(1)"),
    ("clone-default", r"\bNone\b", "Some(Default::default())"),
]
if os.environ.get("SWEEP_OPS") == "2":
    OPS = OPS2

FILE_PROPS = [
    ("src/array/", ["C07", "C20"]), ("src/finite_function/", ["C06"]), ("src/semifinite/", ["C06"]),
    ("src/indexed_coproduct/", ["C08"]), ("src/strict/hypergraph/acyclic", ["C17"]),
    ("src/strict/hypergraph/arrow", ["C18"]), ("src/strict/hypergraph/object", ["C05", "C01", "C17"]),
    ("src/strict/open_hypergraph/", ["C01", "C02", "C04", "C17", "C05"]), ("src/strict/functor/optic", ["C14"]),
    ("src/strict/functor/", ["C12"]), ("src/strict/layer", ["C15"]), ("src/strict/graph", ["C15", "C17", "C18"]),
    ("src/strict/eval", ["C16"]), ("src/lax/hypergraph", ["C09", "C11", "C05", "C02"]), ("src/lax/open_hypergraph", ["C09", "C10", "C11", "C04"]),
    ("src/lax/functor/", ["C13", "C12"]), ("src/lax/optic", ["C14"]), ("src/lax/var/", ["C19"]),
    ("src/lax/category", ["C10", "C02", "C04", "C05"]), ("src/lax/mut_category", ["C10", "C02"]), ("src/category/", ["C04", "C03", "C06"]),
    ("src/operations", ["C05", "C08"]),
]


def props_for(path):
    for pre, ps in FILE_PROPS:
        if path.startswith(pre):
            return ps
    return ["C01"]


def sh(cmd, cwd=None, timeout=1800):
    env = dict(os.environ, CARGO_NET_OFFLINE="true", RUST_BACKTRACE="0")
    try:
        r = subprocess.run(cmd, shell=True, cwd=cwd, env=env, stdout=subprocess.PIPE, stderr=subprocess.STDOUT, text=True, timeout=timeout)
        return r.returncode, r.stdout
    except subprocess.TimeoutExpired:
        return 124, "timeout"


def code_lines(path):
    """(lineno, text) of lines outside tests modules, comments, attributes and doc strings"""
    out = []
    in_tests = False
    for i, l in enumerate(open(path).read().split("\n")):
        st = l.strip()
        if re.match(r"#\[cfg\(test\)\]", st) or re.match(r"mod tests?\b", st):
            in_tests = True
        if in_tests:
            continue
        if not st or st.startswith("//") or st.startswith("#[") or st.startswith("use ") or st.startswith("debug_assert"):
            continue
        if "verif" in st:
            continue
        out.append((i, l))
    return out


def all_mutants():
    ms = []
    for dp, _, fs in os.walk("/repo/src"):
        for f in fs:
            p = os.path.join(dp, f)
            rel = os.path.relpath(p, "/repo")
            if not f.endswith(".rs") or "verif" in rel or "/tests/" in rel or "new-traits" in rel:
                continue
            for (i, l) in code_lines(p):
                code = l.split("//")[0]
                for name, rx, rep in OPS:
                    m = re.search(rx, code)
                    if m:
                        new = code[:m.start()] + re.sub(rx, rep, code[m.start():], count=1) + l[len(code):]
                        if new != l:
                            ms.append({"file": rel, "line": i + 1, "op": name, "old": l, "new": new})
    return ms


def mid(m):
    return "%s_%d_%s" % (m["file"].replace("src/", "").replace("/", "-").replace(".rs", ""), m["line"], m["op"])


CHK = os.path.join(SW, "checks.json")


def load_chk():
    return json.load(open(CHK)) if os.path.exists(CHK) else {}


def load_idx():
    return json.load(open(IDX)) if os.path.exists(IDX) else {}


def save_idx(ix):
    os.makedirs(SW, exist_ok=True)
    json.dump(ix, open(IDX, "w"), indent=1, sort_keys=True)


def screen(n, jobs):
    ms = all_mutants()
    random.Random(int(os.environ.get("SWEEP_SEED", "1"))).shuffle(ms)
    ix = load_idx()
    ms = [m for m in ms if mid(m) not in ix][:n]
    print("mutants to screen:", len(ms), flush=True)
    import threading
    lock = threading.Lock()

    def worker(k):
        wd = "/tmp/msw_%d" % k
        shutil.rmtree(wd, ignore_errors=True)
        sh("mkdir -p %s && cd /repo && git archive HEAD | tar -x -C %s" % (wd, wd))
        sh("cargo test --offline --features serde --lib --test lib --test test_array --test serde_tests --no-run", cwd=wd)
        for j, m in enumerate(ms):
            if j % jobs != k:
                continue
            p = os.path.join(wd, m["file"])
            orig = open(p).read()
            lines = orig.split("\n")
            assert lines[m["line"] - 1] == m["old"]
            lines[m["line"] - 1] = m["new"]
            open(p, "w").write("\n".join(lines))
            rc, o = sh("nice -n 10 cargo test --offline --features serde --lib --test lib --test test_array --test serde_tests 2>&1 | grep -E '^test result|^error|FAILED' | head -12", cwd=wd, timeout=900)
            if "error" in o and "test result" not in o:
                verdict = "compile_fail"
            elif "FAILED" in o or o.count("test result: ok") < 4:
                verdict = "suite_fail"
            else:
                rc, o2 = sh("nice -n 10 cargo test --offline --features serde --doc 2>&1 | grep -E '^test result|^error|FAILED' | head", cwd=wd, timeout=900)
                verdict = "survives" if ("test result: ok" in o2 and "FAILED" not in o2) else "suite_fail"
            rec = {"file": m["file"], "line": m["line"], "op": m["op"], "screen": verdict, "props": props_for(m["file"])}
            if verdict == "survives":
                rc, d = sh("git diff --no-index -- /dev/null /dev/null; diff -u %s %s" % (os.path.join("/repo", m["file"]), p))
                d = d.replace("--- /repo/" + m["file"], "--- a/" + m["file"]).replace("+++ " + p, "+++ b/" + m["file"])
                d = re.sub(r"^(--- a/\S+)\t.*$", r"\1", d, flags=re.M)
                d = re.sub(r"^(\+\+\+ b/\S+)\t.*$", r"\1", d, flags=re.M)
                os.makedirs(SW, exist_ok=True)
                open(os.path.join(SW, mid(m) + ".diff"), "w").write(d)
            open(p, "w").write(orig)
            with lock:
                ix2 = load_idx()
                ix2[mid(m)] = rec
                save_idx(ix2)
            print(k, mid(m), verdict, flush=True)
        shutil.rmtree(wd, ignore_errors=True)

    with ThreadPoolExecutor(jobs) as ex:
        list(ex.map(worker, range(jobs)))


def check(sel):
    ix = load_idx()
    for k in sorted(ix):
        r = ix[k]
        if r["screen"] != "survives" or (sel and k not in sel) or (not sel and "checks" in r):
            continue
        rc, o = sh("git -C /repo status --porcelain")
        assert o.strip() == "", "/repo not clean: " + o
        rc, o = sh("git -C /repo apply %s" % os.path.join(SW, k + ".diff"))
        if rc != 0:
            r["checks"] = {"error": o[:200]}
            save_idx(ix)
            continue
        try:
            res = {}
            for c in r["props"]:
                t0 = time.time()
                rc, o = sh("cd %s && ./check %s --tier quick" % (ROOT, c), timeout=3000)
                res[c] = {"exit": rc, "wall_s": round(time.time() - t0), "violations": [l[:200] for l in o.splitlines() if l.startswith("VIOLATION")][:2]}
                print(k, c, "exit", rc, flush=True)
                if rc == 1:
                    break
            r["checks"] = res
            r["caught"] = any(v["exit"] == 1 for v in res.values())
        finally:
            sh("git -C /repo checkout -- .")
        save_idx(ix)


def pcheck(jobs, sel, outfile=None, override=None, table=None, prefix="vsw"):
    """like check, but in JOBS scratch copies of the committed /verif and /repo under /tmp (the harness
    of each copy depends on its own copy of the repository), so that /repo itself is never touched"""
    import threading
    lock = threading.Lock()
    outfile = outfile or CHK
    override = override or {}
    if table is not None:
        # table: id -> {"diff": path, "props": [...]}  (used for the stored seeded changes)
        ix = table
        todo = [k for k in sorted(ix) if not sel or k in sel]
    else:
        ix = load_idx()
        for k in ix:
            ix[k]["diff"] = os.path.join(SW, k + ".diff")
        done = load_chk() if outfile == CHK else {}
        todo = [k for k in sorted(ix) if ix[k]["screen"] == "survives" and ((sel and k in sel) or (not sel and k not in done))]
    print("to check:", len(todo), flush=True)

    def worker(w):
        base = "/tmp/%s_%d" % (prefix, w)
        shutil.rmtree(base, ignore_errors=True)
        sh("mkdir -p %s/verif %s/repo && git -C /verif archive HEAD | tar -x -C %s/verif && git -C /repo archive HEAD | tar -x -C %s/repo" % (base, base, base, base))
        sh("sed -i 's#path = \"/repo\"#path = \"%s/repo\"#' %s/verif/harness/Cargo.toml" % (base, base))
        for j, k in enumerate(todo):
            if j % jobs != w:
                continue
            r = ix[k]
            rc, o = sh("patch -p1 < %s" % r["diff"], cwd=base + "/repo")
            res = {}
            if rc != 0:
                res = {"error": o[:200]}
            else:
                for c in override.get(k, r["props"]):
                    t0 = time.time()
                    rc, o = sh("cd %s/verif && VERIF_REPO=%s/repo nice -n 5 ./check %s --tier quick" % (base, base, c), timeout=3000)
                    res[c] = {"exit": rc, "wall_s": round(time.time() - t0), "violations": [l[:200] for l in o.splitlines() if l.startswith("VIOLATION")][:2]}
                    if rc == 2:
                        res[c]["tail"] = o[-400:]
                    print(w, k, c, "exit", rc, flush=True)
                    if rc == 1:
                        break
                sh("patch -R -p1 < %s" % r["diff"], cwd=base + "/repo")
            with lock:
                ck = json.load(open(outfile)) if os.path.exists(outfile) else {}
                ck[k] = {"checks": res, "caught": any(isinstance(v, dict) and v.get("exit") == 1 for v in res.values())}
                json.dump(ck, open(outfile, "w"), indent=1, sort_keys=True)
        shutil.rmtree(base, ignore_errors=True)

    with ThreadPoolExecutor(jobs) as ex:
        list(ex.map(worker, range(jobs)))


def report():
    ix = load_idx()
    tot = len(ix)
    by = {}
    for r in ix.values():
        by[r["screen"]] = by.get(r["screen"], 0) + 1
    print("screened %d: %s" % (tot, by))
    ck = load_chk()
    an = json.load(open(os.path.join(SW, "analysis.json"))) if os.path.exists(os.path.join(SW, "analysis.json")) else {}
    for k, v in ck.items():
        if k in ix:
            ix[k].update(v)
    for k, v in an.items():
        if k in ix:
            ix[k]["analysis"] = v
    sv = {k: r for k, r in ix.items() if r["screen"] == "survives"}
    print("survivors checked: %d, caught: %d" % (sum("checks" in r for r in sv.values()), sum(bool(r.get("caught")) for r in sv.values())))
    print("\n| mutant | properties run | verdict | analysis |\n|---|---|---|---|")
    for k in sorted(sv):
        r = sv[k]
        if "checks" not in r:
            v = "not run"
        elif r.get("caught"):
            v = "caught by " + ", ".join(c for c, x in r["checks"].items() if isinstance(x, dict) and x.get("exit") == 1)
        else:
            v = "**not caught**"
        print("| %s | %s | %s | %s |" % (k, " ".join(r["props"]), v, r.get("analysis", "")))


if __name__ == "__main__":
    cmd = sys.argv[1]
    if cmd == "screen":
        screen(int(sys.argv[2]) if len(sys.argv) > 2 else 200, int(sys.argv[3]) if len(sys.argv) > 3 else 4)
    elif cmd == "check":
        check(sys.argv[2:])
    elif cmd == "pcheck":
        pcheck(int(sys.argv[2]), sys.argv[3:])
    elif cmd == "recheck":
        # recheck JOBS id:prop[,prop] ...   (results in sweep/rechecks.json)
        ov = {a.split(":")[0]: a.split(":")[1].split(",") for a in sys.argv[3:]}
        pcheck(int(sys.argv[2]), list(ov), os.path.join(SW, "rechecks.json"), ov, prefix="vsr")
    elif cmd == "seeds":
        # seeds JOBS [seed-id ...]: regression of the stored seeded changes in scratch copies (results in selftest/seed_regression.json)
        import glob
        tb = {}
        for meta in sorted(glob.glob(os.path.join(ROOT, "seeded/*/meta.json"))):
            m = json.load(open(meta))
            cs = sorted(m.get("detected_by") or [m["property"]], key=lambda c: c != m["property"])[:1]
            tb[m["seed"]] = {"diff": os.path.join(os.path.dirname(meta), "patch.diff"), "props": cs}
        pcheck(int(sys.argv[2]), sys.argv[3:], os.path.join(ROOT, "selftest", "seed_regression.json"), None, tb, prefix="vss")
    elif cmd == "refactors":
        # refactors JOBS: the stored property-preserving refactorings against all twenty quick checks, in scratch
        # copies (results in selftest/refactor_regression.json; every exit must be 0)
        import glob
        tb = {}
        for d in sorted(glob.glob(os.path.join(ROOT, "refactors/*/patch.diff"))):
            rid = os.path.basename(os.path.dirname(d))
            for half, props in (("a", ["C%02d" % i for i in range(1, 11)]), ("b", ["C%02d" % i for i in range(11, 21)])):
                tb["%s-%s" % (rid, half)] = {"diff": d, "props": props}
        pcheck(int(sys.argv[2]), sys.argv[3:], os.path.join(ROOT, "selftest", "refactor_regression.json"), None, tb, prefix="vsf")
    elif cmd == "report":
        report()
    elif cmd == "count":
        print(len(all_mutants()))
