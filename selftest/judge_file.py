#!/usr/bin/env python3
"""judge_file.py <events.ndjson> [max_nodes max_edges]: judge a recorded file with Trace.tla (development aid)."""
import sys, os, json, shutil, collections
from importlib.machinery import SourceFileLoader
ROOT = os.path.dirname(os.path.dirname(os.path.abspath(__file__)))
chk = SourceFileLoader("chk", os.path.join(ROOT, "check")).load_module()
src = sys.argv[1]
mn, me = (int(sys.argv[2]), int(sys.argv[3])) if len(sys.argv) > 3 else (12, 6)
ops_sel = set(sys.argv[4].split(",")) if len(sys.argv) > 4 else None
work = os.path.join(ROOT, "work", "jf.%d" % os.getpid())
os.makedirs(work, exist_ok=True)
try:
    obs = os.path.join(work, "obs.ndjson")
    with open(obs, "w") as out:
        for line in open(src):
            try:
                ev = json.loads(line)
            except Exception:
                continue
            if ops_sel and ev["op"] not in ops_sel:
                continue
            a = ev["args"]
            if "pre" in a:
                n, e = len(a["pre"]["nodes"]), len(a["pre"]["edges"])
            else:
                n = sum(len(a[k]["h"]["w"]) for k in ("f", "g") if k in a)
                e = sum(len(a[k]["h"]["x"]) for k in ("f", "g") if k in a)
            if n <= mn and e <= me:
                out.write(line if line.endswith("\n") else line + "\n")
    n, nd, nn, samples, ops, chunks = chk.number_and_split(obs, work, 12)
    nonconf, consumed, st = chk.run_judge(work, chunks)
    print("events", n, "consumed", consumed, "nonconforming", len(nonconf))
    print(dict(ops))
    print(collections.Counter((x["op"], x["class"]) for x in nonconf))
    if nonconf:
        evs = chk.fetch_events(chunks, [nonconf[0]["id"]])
        print(json.dumps(list(evs.values())[0])[:1500])
finally:
    shutil.rmtree(work, ignore_errors=True)
