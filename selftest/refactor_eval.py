#!/usr/bin/env python3
"""refactor_eval.py <worktree> <id> [check ids...]
Soundness test: applies a property-preserving refactoring (patch.diff produced by an independent
sub-agent, pinned suite passing) to /repo, runs the quick tier of every check (default: all), and
requires every one to exit 0 with no VIOLATION line.  Stores patch, notes and outcome under
/verif/refactors/<id>/.  The patch is never committed to /repo."""
import sys, os, subprocess, json, shutil, time
ROOT = os.path.dirname(os.path.dirname(os.path.abspath(__file__)))
def sh(cmd, timeout=7200):
    r = subprocess.run(cmd, shell=True, stdout=subprocess.PIPE, stderr=subprocess.STDOUT, text=True, timeout=timeout,
                       env=dict(os.environ, CARGO_NET_OFFLINE="true", RUST_BACKTRACE="0"))
    return r.returncode, r.stdout
def main():
    wt, rid = sys.argv[1], sys.argv[2]
    checks = sys.argv[3:] or ["C%02d" % i for i in range(1, 21)]
    dest = os.path.join(ROOT, "refactors", rid)
    os.makedirs(dest, exist_ok=True)
    shutil.copy(os.path.join(wt, "patch.diff"), os.path.join(dest, "patch.diff"))
    if os.path.exists(os.path.join(wt, "NOTES.md")):
        shutil.copy(os.path.join(wt, "NOTES.md"), os.path.join(dest, "NOTES.md"))
    rc, o = sh("git -C /repo status --porcelain")
    assert o.strip() == "", "/repo not clean: " + o
    rc, o = sh("git -C /repo apply %s" % os.path.join(dest, "patch.diff"))
    assert rc == 0, o
    out = {"refactoring": rid, "checks": {}}
    try:
        rc, o = sh("cd /repo && cargo test --offline --features serde 2>&1 | grep -E '^test result|FAILED|error\\[' | head -12")
        out["pinned_suite_passes"] = "FAILED" not in o and "error[" not in o and "test result: ok" in o
        for c in checks:
            t0 = time.time()
            rc, o = sh("cd %s && ./check %s --tier quick" % (ROOT, c))
            lines = [l[:300] for l in o.splitlines() if l.startswith(("VIOLATION", "TOOL-ERROR", "KNOWN"))]
            out["checks"][c] = {"exit": rc, "wall_s": round(time.time() - t0, 1), "lines": lines[:5]}
            print(rid, c, "exit", rc, lines[:2], flush=True)
            json.dump(out, open(os.path.join(dest, "result.json"), "w"), indent=1)
    finally:
        sh("git -C /repo checkout -- .")
    out["false_alarms"] = [c for c, d in out["checks"].items() if d["exit"] != 0]
    json.dump(out, open(os.path.join(dest, "result.json"), "w"), indent=1)
    print(json.dumps({"refactoring": rid, "suite": out["pinned_suite_passes"], "false_alarms": out["false_alarms"]}))
if __name__ == "__main__":
    main()
