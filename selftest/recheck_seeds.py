#!/usr/bin/env python3
"""recheck_seeds.py [seed-id ...]
Regression of the machinery against the stored seeded changes: applies seeded/<id>/patch.diff to
/repo (never committed), runs the checks that are recorded as catching it (quick tier), undoes the
patch, and writes selftest/seed_regression.json.  Exit 1 if a seed is no longer caught."""
import sys, os, json, subprocess, glob, time
ROOT = os.path.dirname(os.path.dirname(os.path.abspath(__file__)))

def sh(cmd, timeout=3600):
    r = subprocess.run(cmd, shell=True, stdout=subprocess.PIPE, stderr=subprocess.STDOUT, text=True, timeout=timeout,
                       env=dict(os.environ, CARGO_NET_OFFLINE="true", RUST_BACKTRACE="0"))
    return r.returncode, r.stdout

def main():
    sel = sys.argv[1:]
    out = {}
    bad = []
    for meta in sorted(glob.glob(os.path.join(ROOT, "seeded/*/meta.json"))):
        m = json.load(open(meta))
        sid = m["seed"]
        if sel and sid not in sel:
            continue
        checks = m.get("detected_by") or [m["property"]]
        # the property's own check first; one catching check is enough for the regression
        checks = sorted(checks, key=lambda c: c != m["property"])[:1]
        rc, o = sh("git -C /repo status --porcelain")
        assert o.strip() == "", "/repo not clean: " + o
        rc, o = sh("git -C /repo apply %s" % os.path.join(os.path.dirname(meta), "patch.diff"))
        assert rc == 0, (sid, o)
        try:
            res = {}
            for c in checks:
                t0 = time.time()
                rc, o = sh("cd %s && ./check %s --tier quick" % (ROOT, c))
                res[c] = {"exit": rc, "wall_s": round(time.time() - t0, 1), "violations": [l[:160] for l in o.splitlines() if l.startswith("VIOLATION")][:3]}
                print(sid, c, "exit", rc, flush=True)
            out[sid] = res
            if not any(r["exit"] == 1 for r in res.values()):
                bad.append(sid)
        finally:
            sh("git -C /repo checkout -- .")
        json.dump(out, open(os.path.join(ROOT, "selftest/seed_regression.json"), "w"), indent=1)
    print("seeds rechecked: %d, no longer caught: %s" % (len(out), bad))
    return 1 if bad else 0

if __name__ == "__main__":
    sys.exit(main())
