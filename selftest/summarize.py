#!/usr/bin/env python3
"""Prints markdown tables for DESIGN.md: (1) per-property instances and last measured coverage
(from checks_config.py, spec/mc/*.cfg and evidence/*.json), (2) seeded changes, (3) mutants."""
import json, os, re, sys, glob
ROOT = os.path.dirname(os.path.dirname(os.path.abspath(__file__)))
sys.path.insert(0, ROOT)
from checks_config import CHECKS


def consts(cfg):
    t = open(os.path.join(ROOT, "spec/mc", cfg)).read()
    m = re.search(r"CONSTANTS(.*?)(?:\n[A-Z_]+\b|\Z)", t, re.S)
    return " ".join(m.group(1).split()) if m else ""


print("### Instances per property (constants from spec/mc/*.cfg)\n")
print("| property | tier | instance (module / cfg: constants) | driver | suite trace |")
print("|---|---|---|---|---|")
for p in sorted(CHECKS):
    for tier in ("quick", "thorough"):
        plan = CHECKS[p][tier]
        inst = "<br>".join("%s / %s%s: `%s`" % (g["module"], g["cfg"], " (model only)" if g.get("model_only") else (" [adv backend]" if g.get("backends") == ["adv"] else ""), consts(g["cfg"])) for g in plan.get("gen", []))
        drv = ", ".join("%s x %d%s" % (d["machine"], d["budget"], " adv" if d.get("backend") == "adv" else "") for d in plan.get("drive", [])) or "-"
        st = plan.get("suite", {}).get("tests", "-") if plan.get("suite") else "-"
        print("| %s | %s | %s | %s | %s |" % (p, tier, inst, drv, st))

print("\n### Last measured runs (evidence/*.json)\n")
print("| property | tier | events executed on the library | conforming | GEN states | wall s |")
print("|---|---|---|---|---|---|")
for f in sorted(glob.glob(os.path.join(ROOT, "evidence/*.json"))):
    e = json.load(open(f))
    c = e["coverage"]
    print("| %s | %s | %d | %d | %d | %.0f |" % (e["property_id"], e["tier"], c["evaluations"], c["traces_validated_against_impl"], c["gen_states_distinct"], e["wall_s"]))

print("\n### Seeded changes (sub-agents; /verif/seeded/<id>/)\n")
print("| seed | property | confirmed | caught by | note |")
print("|---|---|---|---|---|")
for d in sorted(glob.glob(os.path.join(ROOT, "seeded/*/meta.json"))):
    m = json.load(open(d))
    viol = []
    for c, r in m.get("checks", {}).items():
        for v in r.get("violations", [])[:2]:
            mm = re.search(r"op=(\S+) class=(\S+)", v)
            if mm:
                viol.append("%s: %s/%s" % (c, mm.group(1), mm.group(2)))
    print("| %s | %s | %s | %s | %s |" % (m["seed"], m["property"], m.get("confirmed"), ", ".join(m.get("detected_by", [])) or "**none**",
                                        ("; ".join(viol[:3]) + (" — " + m["note"] if m.get("note") else ""))[:600]))

rp = os.path.join(ROOT, "selftest/mutants/results.json")
if os.path.exists(rp):
    print("\n### Hand-written mutants (selftest/mutants/)\n")
    print("| mutant | property | pinned suite still passes | caught by |")
    print("|---|---|---|---|")
    for k, v in sorted(json.load(open(rp)).items()):
        print("| %s | %s | %s | %s |" % (k, v["property"], v["pinned_suite_passes"], ", ".join(v["caught_by"]) or "**none**"))

print("\n### Property-preserving refactorings (soundness; /verif/refactors/<id>/)\n")
print("| refactoring | pinned suite passes | checks run | false alarms |")
print("|---|---|---|---|")
for d in sorted(glob.glob(os.path.join(ROOT, "refactors/*/result.json"))):
    m = json.load(open(d))
    print("| %s | %s | %d | %s |" % (m["refactoring"], m.get("pinned_suite_passes"), len(m["checks"]), ", ".join(m.get("false_alarms", [])) or "none"))

sp = os.path.join(ROOT, "selftest/sweep/index.json")
if os.path.exists(sp):
    ix = json.load(open(sp))
    ck = json.load(open(os.path.join(ROOT, "selftest/sweep/checks.json"))) if os.path.exists(os.path.join(ROOT, "selftest/sweep/checks.json")) else {}
    an = json.load(open(os.path.join(ROOT, "selftest/sweep/analysis.json"))) if os.path.exists(os.path.join(ROOT, "selftest/sweep/analysis.json")) else {}
    by = {}
    for r in ix.values():
        by[r["screen"]] = by.get(r["screen"], 0) + 1
    sv = sorted(k for k, r in ix.items() if r["screen"] == "survives")
    caught = [k for k in sv if ck.get(k, {}).get("caught")]
    print("\n### Mutation sweep (selftest/mutsweep.py; single-line textual mutants of /repo/src)\n")
    print("%d mutants generated and screened: %d do not compile, %d fail the pinned suite, **%d compile and pass the pinned suite**." % (len(ix), by.get("compile_fail", 0), by.get("suite_fail", 0), len(sv)))
    print("Of those %d, %d were run against the quick checks of the properties anchored in the mutated file: %d caught; the others are analysed one by one below.\n" % (len(sv), sum(k in ck for k in sv), len(caught)))
    print("| surviving mutant not caught at first | checks run | analysis |")
    print("|---|---|---|")
    for k in sv:
        if k in ck and not ck[k].get("caught"):
            print("| %s | %s | %s |" % (k, " ".join(c for c in ck[k]["checks"] if c != "error"), an.get(k, "**not analysed**")))
    rr = os.path.join(ROOT, "selftest/sweep/rechecks.json")
    if os.path.exists(rr):
        print("\nRe-runs after strengthening (gaps and map corrections):\n")
        print("| mutant | check | verdict |")
        print("|---|---|---|")
        for k, v in sorted(json.load(open(rr)).items()):
            for c, x in v["checks"].items():
                print("| %s | %s | %s |" % (k, c, "caught" if x.get("exit") == 1 else "exit %s" % x.get("exit")))

for name, title in (("seed_regression.json", "Seeded changes re-checked on the final machinery (scratch copies)"), ("refactor_regression.json", "Refactorings re-checked on the final machinery (scratch copies; each id = refactoring x half of the twenty checks)")):
    rp = os.path.join(ROOT, "selftest", name)
    if os.path.exists(rp):
        r = json.load(open(rp))
        runs = sum(len([c for c in v.get("checks", {}) if c != "error"]) for v in r.values())
        ex = {}
        for v in r.values():
            for c, x in v.get("checks", {}).items():
                if isinstance(x, dict):
                    ex[x.get("exit")] = ex.get(x.get("exit"), 0) + 1
        print("\n### %s\n" % title)
        print("%d entries, %d check runs, exits: %s; entries with a VIOLATION: %d" % (len(r), runs, ", ".join("%s x %d" % (k, v) for k, v in sorted(ex.items(), key=str)), sum(bool(v.get("caught")) for v in r.values())))
