#!/usr/bin/env python3
"""run_mutants.py [name-prefix ...]
Applies each hand-written mutant of selftest/mutants/ to /repo (never committed), makes sure the
pinned suite still compiles, runs the mapped quick checks, undoes the patch, and writes
selftest/mutants/results.json: which checks catch which mutant."""
import sys, os, json, subprocess, time
ROOT = os.path.dirname(os.path.dirname(os.path.abspath(__file__)))
def sh(cmd, timeout=3600):
    r = subprocess.run(cmd, shell=True, stdout=subprocess.PIPE, stderr=subprocess.STDOUT, text=True, timeout=timeout,
                       env=dict(os.environ, CARGO_NET_OFFLINE="true", RUST_BACKTRACE="0"))
    return r.returncode, r.stdout
def main():
    cat = json.load(open(os.path.join(ROOT, "selftest/mutants/catalogue.json")))
    sel = sys.argv[1:]
    resp = os.path.join(ROOT, "selftest/mutants/results.json")
    results = json.load(open(resp)) if os.path.exists(resp) else {}
    for m in cat:
        if sel and not any(m["name"].startswith(s) for s in sel):
            continue
        rc, o = sh("git -C /repo status --porcelain")
        assert o.strip() == "", "/repo not clean"
        rc, o = sh("git -C /repo apply %s/selftest/mutants/%s.diff" % (ROOT, m["name"]))
        assert rc == 0, o
        try:
            rc, o = sh("cd /repo && cargo test --offline 2>&1 | grep -E '^test result|FAILED|error\\[' | head -12")
            suite_pass = "FAILED" not in o and "error[" not in o and "test result: ok" in o
            res = {"property": m["property"], "pinned_suite_passes": suite_pass, "checks": {}}
            for c in m["checks"]:
                t0 = time.time()
                rc, o = sh("cd %s && ./check %s --tier quick" % (ROOT, c), timeout=3600)
                res["checks"][c] = {"exit": rc, "wall_s": round(time.time() - t0, 1),
                                    "violations": [l[:200] for l in o.splitlines() if l.startswith("VIOLATION")][:4]}
                print(m["name"], c, "exit", rc, flush=True)
            res["caught_by"] = [c for c, d in res["checks"].items() if d["exit"] == 1]
            results[m["name"]] = res
        finally:
            sh("git -C /repo checkout -- .")
        json.dump(results, open(resp, "w"), indent=1)
    missed = [k for k, v in results.items() if not v["caught_by"]]
    print("mutants: %d run, %d caught, missed: %s" % (len(results), len(results) - len(missed), missed))
if __name__ == "__main__":
    main()
