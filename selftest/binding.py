#!/usr/bin/env python3
"""Demonstrates that the specification is bound to the recorded observations (DESIGN.md section 9):
for events of several kinds, corrupt ONE recorded field and require Trace.tla to flag exactly that
line (and no other); also require an uncorrupted copy of the same trace to be accepted in full.

usage: selftest/binding.py        (exit 0 = every corruption was caught and nothing else flagged)"""
import sys, os, json, subprocess, shutil, copy, random
from importlib.machinery import SourceFileLoader

ROOT = os.path.dirname(os.path.dirname(os.path.abspath(__file__)))
chk = SourceFileLoader("chk", os.path.join(ROOT, "check")).load_module()


def corrupt(ev, rng):
    """Return (description, corrupted event) or None."""
    ev = copy.deepcopy(ev)
    o = ev["obs"]
    op = ev["op"]
    if op in ("strict.compose", "strict.tensor") and o.get("tag") in ("some", "val"):
        v = o["val"]
        # corruptions that certainly change the meaning: a node label, a hyperedge label, a codomain
        if v["h"]["w"]:
            v["h"]["w"][0] = v["h"]["w"][0] + 5
            return "node label changed", ev
        if v["h"]["x"]:
            v["h"]["x"][0] = v["h"]["x"][0] + 5
            return "hyperedge label changed", ev
        v["s"]["target"] += 1
        return "codomain of the source leg bumped", ev
    if op.startswith("lax.") and isinstance(o.get("post"), dict) and o.get("tag") != "panic":
        p = o["post"]
        if p["ql"]:
            p["ql"].pop()
            p["qr"].pop()
            return "pending unification dropped from the logged post-state", ev
        if p["nodes"]:
            p["nodes"][-1] = 1 - p["nodes"][-1]
            return "node label flipped in the logged post-state", ev
        return None
    if op == "strict.layer" and o.get("tag") == "val" and o["val"]["unvisited"]:
        o["val"]["unvisited"][0] = 1 - o["val"]["unvisited"][0]
        return "visited flag of operation 0 flipped", ev
    if op == "arr.argsort" and o.get("tag") == "val" and len(o["val"]) >= 2 and ev["args"]["a"][o["val"][0]] != ev["args"]["a"][o["val"][-1]]:
        o["val"][0], o["val"][-1] = o["val"][-1], o["val"][0]
        return "argsort permutation no longer sorts", ev
    if op == "strict.eval" and o.get("tag") == "some" and o["val"]:
        o["val"][0] = (o["val"][0] + 1) % 256
        return "evaluation result off by one", ev
    return None


def main():
    work = os.path.join(ROOT, "work", "binding.%d" % os.getpid())
    os.makedirs(work, exist_ok=True)
    rng = random.Random(7)
    try:
        chk.build_harness(["debug"])
        stats = {"states_generated": 0, "states_distinct": 0, "actions": {}, "gen_wall_s": 0.0}
        cases = os.path.join(work, "cases.ndjson")
        open(cases, "w").close()
        for module, cfg, limit in [("MC_C01", "MC_C01_small.cfg", 3000), ("MC_Lax", "MC_C11_quick.cfg", 4000), ("MC_C15", "MC_C15_small.cfg", 3000),
                                   ("MC_C07", "MC_C07_small.cfg", 4000), ("MC_C16", "MC_C16_small.cfg", 2000)]:
            chk.run_gen(work, dict(module=module, cfg=cfg, limit=limit, workers=4), 1, stats, cases)
        obs = os.path.join(work, "obs.ndjson")
        open(obs, "w").close()
        chk.run_exec("debug", cases, obs)
        events = [json.loads(l) for l in open(obs)]
        rng.shuffle(events)
        events = events[:6000]
        # choose up to 40 corruptions, spread over kinds
        corrupted = {}
        per_op = {}
        out_events = []
        for i, ev in enumerate(events):
            c = None
            if per_op.get(ev["op"], 0) < 6 and len(corrupted) < 40 and rng.random() < 0.2:
                c = corrupt(ev, rng)
            if c:
                per_op[ev["op"]] = per_op.get(ev["op"], 0) + 1
                corrupted[i + 1] = (ev["op"], c[0])
                out_events.append(c[1])
            else:
                out_events.append(ev)
        for name, evs in (("clean", events), ("corrupt", out_events)):
            with open(os.path.join(work, name + ".ndjson"), "w") as f:
                for i, ev in enumerate(evs):
                    ev = dict(ev)
                    ev["id"] = i + 1
                    f.write(json.dumps(ev, separators=(",", ":")) + "\n")
        nc_clean, consumed_clean, _ = chk.run_judge(work, [os.path.join(work, "clean.ndjson")])
        nc_cor, consumed_cor, _ = chk.run_judge(work, [os.path.join(work, "corrupt.ndjson")])
        flagged = {n["id"] for n in nc_cor}
        ok = True
        if nc_clean:
            print("FAIL: uncorrupted trace has %d non-conforming events" % len(nc_clean))
            ok = False
        missed = sorted(set(corrupted) - flagged)
        extra = sorted(flagged - set(corrupted))
        for i in missed:
            print("FAIL: corruption not flagged: line %d %s (%s)" % (i, corrupted[i][0], corrupted[i][1]))
            ok = False
        for i in extra:
            print("FAIL: line %d flagged although not corrupted" % i)
            ok = False
        kinds = {}
        for i, (op, what) in corrupted.items():
            kinds.setdefault(op + ": " + what, 0)
            kinds[op + ": " + what] += 1
        print("binding self-test: %d events, %d corrupted, %d flagged, clean trace consumed=%d flagged=%d" % (
            len(events), len(corrupted), len(flagged), consumed_clean, len(nc_clean)))
        for k, v in sorted(kinds.items()):
            print("   caught %dx  %s" % (v, k))
        return 0 if ok and corrupted else 1
    finally:
        shutil.rmtree(work, ignore_errors=True)


if __name__ == "__main__":
    sys.exit(main())
