#!/usr/bin/env python3
"""judge_drive.py <machine> <budget> [only-prefixes] [seed]: record with the driver and judge with Trace.tla (development aid)."""
import sys, os, json, shutil, collections
from importlib.machinery import SourceFileLoader
ROOT = os.path.dirname(os.path.dirname(os.path.abspath(__file__)))
chk = SourceFileLoader("chk", os.path.join(ROOT, "check")).load_module()
machine, budget = sys.argv[1], int(sys.argv[2])
only = sys.argv[3] if len(sys.argv) > 3 else ""
seed = int(sys.argv[4]) if len(sys.argv) > 4 else 1
work = os.path.join(ROOT, "work", "jd.%d" % os.getpid())
os.makedirs(work, exist_ok=True)
try:
    chk.build_harness(["debug"])
    obs = os.path.join(work, "obs.ndjson")
    open(obs, "w").close()
    chk.run_drive("debug", machine, seed, budget, obs, props="dev", only=only)
    n, nd, nn, samples, ops, chunks = chk.number_and_split(obs, work, 12)
    nonconf, consumed, st = chk.run_judge(work, chunks)
    print("events", n, "consumed", consumed, "nonconforming", len(nonconf))
    print(dict(ops))
    c = collections.Counter((x["op"], x["class"]) for x in nonconf)
    print(c)
    if nonconf:
        evs = chk.fetch_events(chunks, [nonconf[0]["id"]])
        print(json.dumps(list(evs.values())[0])[:1500])
finally:
    shutil.rmtree(work, ignore_errors=True)
