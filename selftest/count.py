#!/usr/bin/env python3
"""count.py N E A I NL EL  -> number of diagrams in Domains!Diagrams (planning aid for instance sizes)"""
import sys
def seqs_upto(k, n): return sum(k**i for i in range(n+1))
def diagrams(N,E,A,I,NL,EL):
    tot=0
    for n in range(N+1):
        edges=EL*seqs_upto(n,A)**2
        tot+= NL**n * seqs_upto(edges,E) * seqs_upto(n,I)**2
    return tot
if __name__=="__main__":
    a=list(map(int,sys.argv[1:7]))
    print(diagrams(*a))
