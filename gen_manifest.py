#!/usr/bin/env python3
"""Regenerates MANIFEST.json from checks_config.py (claimed checks) and properties.jsonl."""
import json, os, subprocess
ROOT = os.path.dirname(os.path.abspath(__file__))
import sys
sys.path.insert(0, ROOT)
from checks_config import CHECKS, META

props = [json.loads(l) for l in open(os.path.join(ROOT, "properties.jsonl"))]
hooks_commits = subprocess.run(["git", "-C", "/repo", "log", "--format=%H %s"], capture_output=True, text=True).stdout.splitlines()
hook_commits = [l.split()[0] for l in hooks_commits if l.split(" ", 1)[1].startswith("verif-hooks")]
checks = []
na = []
for p in props:
    pid = p["id"]
    if pid in CHECKS and not CHECKS[pid].get("disabled"):
        m = META.get(pid, {})
        checks.append({
            "property_id": pid,
            "quick_cmd": "./check %s --tier quick" % pid,
            "thorough_cmd": "./check %s --tier thorough" % pid,
            "evidence_file": "/verif/evidence/%s.json" % pid,
            "replay_cmd_template": "./check %s --replay {path}" % pid,
            "engine": "tla-gen-exec-judge",
            "level_claimed": {
                "category": "model_checking",
                "text": m.get("text", "TLC explores the bounded instance of the TLA+ specification for this property (model-level invariants checked), every generated case is executed on the real library and every observation is validated by TLC against the specification's relation (spec/Trace.tla)."),
                "design_ref": m.get("design_ref", "DESIGN.md section 5, " + pid),
            },
            "level_note": m.get("note", "bounded (small-scope) exploration; trusted: TLC, the CommunityModules JSON reader, the harness projection of public fields to JSON, rustc/cargo"),
            "technique": m.get("technique", "TLA+ specification model-checked with TLC; TLC-generated cases replayed on the implementation and recorded observations trace-validated against the specification"),
        })
    else:
        na.append({"property_id": pid, "reason": META.get(pid, {}).get("na_reason", "not claimed yet: the specification modules and harness bindings for this property are still being built (see DESIGN.md section 12)")})
manifest = {
    "version": 1,
    "setup_cmd": "cd /verif/harness && CARGO_NET_OFFLINE=true cargo build --offline -q && CARGO_NET_OFFLINE=true cargo build --offline -q --release && cd /repo && CARGO_NET_OFFLINE=true CARGO_TARGET_DIR=/verif/harness/target_suite cargo test --offline -q --features verif-hooks --no-run",
    "hooks": {
        "guard": "cargo feature verif-hooks",
        "enable": "the harness crate /verif/harness depends on /repo by path with features [\"serde\", \"verif-hooks\"]; cargo rebuilds it from /repo's working tree on every check",
        "baseline_off_cmd": "cd /repo && cargo test --workspace --no-fail-fast --offline",
        "source_commits": hook_commits,
        "add_only": True,
    },
    "engines": [{
        "name": "tla-gen-exec-judge", "path": "/verif/check",
        "serves_properties": [c["property_id"] for c in checks],
        "kind_free_text": "explicit TLA+ specification (spec/*.tla); TLC bounded instances (spec/mc) generate cases and check model invariants; Rust harness (harness/) executes them on the library; TLC trace validation (spec/Trace.tla) judges every observation",
    }],
    "checks": checks,
    "not_applicable": na,
    "notes": "See DESIGN.md. exit 2 = tool error (never a verdict).",
}
json.dump(manifest, open(os.path.join(ROOT, "MANIFEST.json"), "w"), indent=1)
print("claimed:", [c["property_id"] for c in checks])
