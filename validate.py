#!/usr/bin/env python3
import json, sys, glob
try:
    import jsonschema
except ImportError:
    print("run with python3-vt"); sys.exit(2)
jsonschema.validate(json.load(open('/verif/MANIFEST.json')), json.load(open('/root/.vp/MANIFEST.schema.json')))
for f in glob.glob('/verif/evidence/*.json'):
    jsonschema.validate(json.load(open(f)), json.load(open('/root/.vp/EVIDENCE.schema.json')))
    print('ok', f)
print('manifest ok')
