"""Per-property plans: which bounded instances of the specification GEN explores, which harness
profiles/backends execute the cases, and what the random driver adds, per tier."""

def G(module, cfg, **kw):
    d = dict(module=module, cfg=cfg)
    d.update(kw)
    return d

CHECKS = {
    "C02": {
        "quick": {"gen": [G("MC_C02", "MC_C02_quick.cfg")]},
        "thorough": {"gen": [G("MC_C02", "MC_C02_thorough.cfg")]},
        "require_ops": ["strict.tensor", "lax.tensor", "law.tensor_assoc", "lax.tensor3"],
    },
    "C03": {
        "quick": {"gen": [G("MC_C03", "MC_C03_quick.cfg")]},
        "thorough": {"gen": [G("MC_C03", "MC_C03_thorough.cfg")]},
        "require_ops": ["law.assoc", "law.unit", "law.interchange", "law.twist_natural", "law.twist_inverse", "law.hexagon"],
    },
    "C04": {
        "quick": {"gen": [G("MC_C04", "MC_C04_quick.cfg")]},
        "thorough": {"gen": [G("MC_C04", "MC_C04_thorough.cfg")]},
        "require_ops": ["law.dagger_compose", "law.dagger_tensor", "law.spider_fusion", "strict.spider", "lax.spider", "strict.dagger", "lax.dagger"],
    },
    "C07": {
        "quick": {"drive": [{'machine': 'arrays', 'budget': 3000}], "gen": [G("MC_C07", "MC_C07_quick.cfg")]},
        "thorough": {"drive": [{'machine': 'arrays', 'budget': 50000}], "gen": [G("MC_C07", "MC_C07_thorough.cfg")]},
        "require_ops": ["arr.gather", "arr.scatter", "arr.argsort", "arr.connected_components", "arr.sparse_bincount", "arr.segmented_sum", "arr.get_range", "arr.sort_by"],
    },
    "C06": {
        "quick": {"gen": [G("MC_C06", "MC_C06_quick.cfg")]},
        "thorough": {"gen": [G("MC_C06", "MC_C06_thorough.cfg")]},
        "require_ops": ["ff.compose", "ff.coequalizer", "ff.coequalizer_universal", "ff.universal_labels", "ff.injections", "ff.transpose", "ff.new"],
    },
    "C08": {
        "quick": {"gen": [G("MC_C08", "MC_C08_quick.cfg")]},
        "thorough": {"gen": [G("MC_C08", "MC_C08_thorough.cfg")]},
        "require_ops": ["ic.new_ff", "ic.flatmap", "ic.map_indexes_ff", "ic.iter_ff", "ic.iter_sf", "ops.iter", "ic.flatmap_sources_ff", "ic.map_values"],
    },
    "C09": {
        "quick": {"drive": [{'machine': 'lax', 'budget': 3000}], "gen": [G("MC_Lax", "MC_C09_quick.cfg"), G("MC_Lax", "MC_C09_chains.cfg")]},
        "thorough": {"drive": [{'machine': 'lax', 'budget': 50000}], "gen": [G("MC_Lax", "MC_C09_thorough.cfg")]},
        "require_ops": ["lax.quotient", "lax.h.quotient", "lax.unify"],
    },
    "C11": {
        "quick": {"drive": [{'machine': 'lax', 'budget': 3000}], "gen": [G("MC_Lax", "MC_C11_quick.cfg")]},
        "thorough": {"drive": [{'machine': 'lax', 'budget': 50000}], "gen": [G("MC_Lax", "MC_C11_quick.cfg")]},
        "require_ops": ["lax.new_node", "lax.new_edge", "lax.new_operation", "lax.add_edge_source", "lax.add_edge_target", "lax.unify", "lax.delete_nodes", "lax.delete_edges", "lax.map_nodes", "lax.serde_roundtrip", "lax.h.delete_nodes_witness"],
    },
    "C10": {
        "quick": {"gen": [G("MC_C10", "MC_C10_quick.cfg")]},
        "thorough": {"gen": [G("MC_C10", "MC_C10_thorough.cfg")]},
        "require_ops": ["lax.to_strict", "lax.from_strict", "lax.roundtrip_strict", "lax.roundtrip_lax", "lax.compose", "lax.lax_compose", "lax.tensor_assign", "lax.append", "lax.singleton"],
    },
    "C15": {
        "quick": {"drive": [{"machine": "strict", "budget": 3000}], "gen": [G("MC_C15", "MC_C15_quick.cfg"), G("MC_C15", "MC_C15_quick_b.cfg")]},
        "thorough": {"drive": [{'machine': 'strict', 'budget': 50000}], "gen": [G("MC_C15", "MC_C15_thorough.cfg")]},
        "require_ops": ["strict.layer", "strict.layered_operations", "hook.kahn", "hook.converse", "hook.operation_adjacency", "hook.indegree"],
    },
    "C17": {
        "quick": {"drive": [{'machine': 'strict', 'budget': 3000}], "gen": [G("MC_C15", "MC_C17_quick.cfg")], "profiles": ["debug", "release"]},
        "thorough": {"drive": [{'machine': 'strict', 'budget': 50000}], "gen": [G("MC_C15", "MC_C17_thorough.cfg")], "profiles": ["debug", "release"]},
        "require_ops": ["strict.is_acyclic", "strict.is_monogamous", "hyper.in_degree", "hyper.out_degree"],
    },
    "C16": {
        "quick": {"gen": [G("MC_C16", "MC_C16_quick.cfg")]},
        "thorough": {"gen": [G("MC_C16", "MC_C16_thorough.cfg")]},
        "require_ops": ["strict.eval"],
    },
    "C18": {
        "quick": {"gen": [G("MC_C18", "MC_C18_quick.cfg")]},
        "thorough": {"gen": [G("MC_C18", "MC_C18_thorough.cfg")]},
        "require_ops": ["arrow.new", "arrow.is_monomorphism", "arrow.is_convex_subgraph"],
    },
    "C12": {
        "quick": {"gen": [G("MC_C12", "MC_C12_quick.cfg")]},
        "thorough": {"gen": [G("MC_C12", "MC_C12_quick.cfg")]},
        "require_ops": ["functor.map_arrow", "laxf.dyn_map_arrow", "functor.laws"],
    },
    "C13": {
        "quick": {"gen": [G("MC_C12", "MC_C13_quick.cfg")]},
        "thorough": {"gen": [G("MC_C12", "MC_C13_quick.cfg")]},
        "require_ops": ["laxf.try_define_map_arrow", "laxf.map_arrow_witness"],
    },
    "C14": {
        "quick": {"gen": [G("MC_C14", "MC_C14_quick.cfg")]},
        "thorough": {"gen": [G("MC_C14", "MC_C14_quick.cfg")]},
        "require_ops": ["optic.map_arrow", "optic.map_adapted", "optic.eval_adapted", "optic.laws", "laxf.optic_map_arrow", "laxf.optic_map_adapted"],
    },
    "C19": {
        "quick": {"gen": [G("MC_C19", "MC_C19_quick.cfg")]},
        "thorough": {"gen": [G("MC_C19", "MC_C19_quick.cfg")]},
        "require_ops": ["var.script", "var.forget", "var.forget_monogamous", "var.forget_eval"],
    },
    "C20": {
        "quick": {"drive": [{'machine': 'strict', 'budget': 2000, 'backend': 'adv'}, {'machine': 'arrays', 'budget': 2000, 'backend': 'adv'}], "advseeds": 4, "gen": [
            G("MC_C20", "MC_C20_quick.cfg", model_only=True),
            G("MC_C07", "MC_C07_small.cfg", backends=["adv"]),
            G("MC_C01", "MC_C01_small.cfg", backends=["adv"]),
            G("MC_C04", "MC_C04_small.cfg", backends=["adv"]),
            G("MC_C12", "MC_C12_small.cfg", backends=["adv"]),
            G("MC_C14", "MC_C14_small.cfg", backends=["adv"]),
            G("MC_C15", "MC_C15_small.cfg", backends=["adv"]),
            G("MC_C16", "MC_C16_small.cfg", backends=["adv"]),
            G("MC_C18", "MC_C18_small.cfg", backends=["adv"]),
        ]},
        "thorough": {"drive": [{'machine': 'strict', 'budget': 30000, 'backend': 'adv'}, {'machine': 'arrays', 'budget': 30000, 'backend': 'adv'}], "advseeds": 16, "gen": [
            G("MC_C20", "MC_C20_thorough.cfg", model_only=True),
            G("MC_C07", "MC_C07_quick.cfg", backends=["adv"]),
            G("MC_C01", "MC_C01_quick.cfg", backends=["adv"]),
            G("MC_C04", "MC_C04_quick.cfg", backends=["adv"]),
            G("MC_C12", "MC_C12_quick.cfg", backends=["adv"]),
            G("MC_C14", "MC_C14_quick.cfg", backends=["adv"]),
            G("MC_C15", "MC_C15_small.cfg", backends=["adv"]),
            G("MC_C16", "MC_C16_quick.cfg", backends=["adv"]),
            G("MC_C18", "MC_C18_small.cfg", backends=["adv"]),
        ]},
        "require_ops": ["arr.argsort", "arr.connected_components", "arr.sparse_bincount", "arr.scatter", "strict.compose", "functor.map_arrow", "optic.eval_adapted", "strict.layer", "strict.eval", "arrow.is_convex_subgraph", "strict.is_monogamous"],
    },
    "C05": {
        "quick": {"drive": [{'machine': 'strict', 'budget': 3000}], "gen": [
            G("MC_C05", "MC_C05_quick.cfg"),
            G("MC_C06", "MC_C06_quick.cfg"),
            G("MC_C08", "MC_C08_quick.cfg"),
            G("MC_C01", "MC_C01_small.cfg"),
            G("MC_C02", "MC_C02_small.cfg"),
            G("MC_C04", "MC_C04_small.cfg"),
            G("MC_C10", "MC_C10_small.cfg"),
            G("MC_C12", "MC_C12_small.cfg"),
            G("MC_C14", "MC_C14_small.cfg"),
        ]},
        "thorough": {"drive": [{'machine': 'strict', 'budget': 50000}], "gen": [
            G("MC_C05", "MC_C05_quick.cfg"),
            G("MC_C06", "MC_C06_quick.cfg"),
            G("MC_C08", "MC_C08_quick.cfg"),
            G("MC_C01", "MC_C01_quick.cfg"),
            G("MC_C02", "MC_C02_quick.cfg"),
            G("MC_C04", "MC_C04_quick.cfg"),
            G("MC_C10", "MC_C10_quick.cfg"),
            G("MC_C12", "MC_C12_quick.cfg"),
            G("MC_C14", "MC_C14_quick.cfg"),
        ]},
        "require_ops": ["hyper.new", "strict.new", "ff.new", "ic.new_ff", "ops.new", "strict.identity", "strict.twist", "strict.singleton", "strict.tensor_operations", "strict.compose", "strict.tensor", "functor.map_arrow", "optic.map_arrow", "lax.to_strict", "lax.from_strict"],
    },
    "C01": {
        "quick": {"drive": [{'machine': 'strict', 'budget': 3000}], "gen": [G("MC_C01", "MC_C01_quick.cfg")]},
        "thorough": {"drive": [{'machine': 'strict', 'budget': 50000}], "gen": [G("MC_C01", "MC_C01_quick.cfg")]},
        "require_ops": ["strict.compose"],
    },
}
META = {}
