"""Per-property plans: which bounded instances of the specification GEN explores (spec/mc), which
harness profiles / backends execute the generated cases, and what the seeded random driver adds,
per tier.  `check` interprets these; `gen_manifest.py` derives MANIFEST.json from them."""


def G(module, cfg, **kw):
    d = dict(module=module, cfg=cfg)
    d.update(kw)
    return d


def D(machine, budget, **kw):
    d = dict(machine=machine, budget=budget)
    d.update(kw)
    return d


ADV = ["adv"]

CHECKS = {
    "C01": {
        "quick": {"gen": [G("MC_C01", "MC_C01_quick.cfg"), G("MC_C01", "MC_C01_labels.cfg")], "drive": [D("strict", 3000, only=["strict.compose", "law."]), D("glue", 4000, only=["strict.compose"])], "suite": {"tests": "--test lib open_hypergraph", "ops": ["strict.compose"]}},
        "thorough": {"gen": [G("MC_C01", "MC_C01_thorough.cfg"), G("MC_C01", "MC_C01_thorough_b.cfg")], "drive": [D("strict", 50000, only=["strict.compose", "law."]), D("glue", 100000, only=["strict.compose"])], "suite": {"tests": "--test lib", "ops": ["strict.compose"], "max_nodes": 14, "max_edges": 8}},
        "require_ops": ["strict.compose"],
    },
    "C02": {
        "quick": {"gen": [G("MC_C02", "MC_C02_quick.cfg")], "suite": {"tests": "--test lib open_hypergraph", "ops": ["strict.tensor"], "max_nodes": 40, "max_edges": 40}, "drive": [D("laxcat", 2000, only=["lax.tensor"])]},
        "thorough": {"gen": [G("MC_C02", "MC_C02_thorough.cfg"), G("MC_C02", "MC_C02_quick.cfg")], "drive": [D("laxcat", 30000, only=["lax.tensor"])]},
        "require_ops": ["strict.tensor", "lax.tensor", "law.tensor_assoc", "lax.tensor3", "hyper.coproduct"],
    },
    "C03": {
        "quick": {"gen": [G("MC_C03", "MC_C03_quick.cfg")], "drive": [D("glue", 2000, only=["law."]), D("strict", 1500, only=["law."])]},
        "thorough": {"gen": [G("MC_C03", "MC_C03_thorough.cfg"), G("MC_C03", "MC_C03_thorough_b.cfg")], "drive": [D("strict", 30000), D("glue", 40000, only=["law."])]},
        "require_ops": ["law.assoc", "law.unit", "law.interchange", "law.twist_natural", "law.twist_inverse", "law.hexagon"],
    },
    "C04": {
        "quick": {"gen": [G("MC_C04", "MC_C04_quick.cfg")], "drive": [D("glue", 3000, only=["lax.compose", "strict.compose"])], "suite": {"tests": "--test lib open_hypergraph", "ops": ["strict.dagger"], "max_nodes": 24, "max_edges": 12}},
        "thorough": {"gen": [G("MC_C04", "MC_C04_thorough.cfg")], "drive": [D("glue", 60000, only=["lax.compose", "strict.compose"])], "suite": {"tests": "--test lib", "ops": ["strict.dagger"], "max_nodes": 40, "max_edges": 20}},
        "require_ops": ["law.dagger_compose", "law.dagger_tensor", "law.spider_fusion", "strict.spider", "lax.spider", "strict.dagger", "lax.dagger"],
    },
    "C05": {
        "quick": {"gen": [
            G("MC_C05", "MC_C05_quick.cfg"), G("MC_C06", "MC_C06_quick.cfg"), G("MC_C08", "MC_C08_quick.cfg"),
            G("MC_C01", "MC_C01_small.cfg"), G("MC_C02", "MC_C02_small.cfg"), G("MC_C04", "MC_C04_small.cfg"),
            G("MC_C10", "MC_C10_small.cfg"), G("MC_C12", "MC_C12_small.cfg"), G("MC_C14", "MC_C14_small.cfg"),
        ], "drive": [D("strict", 3000)]},
        "thorough": {"gen": [
            G("MC_C05", "MC_C05_quick.cfg"), G("MC_C06", "MC_C06_quick.cfg"), G("MC_C08", "MC_C08_quick.cfg"),
            G("MC_C01", "MC_C01_quick.cfg"), G("MC_C02", "MC_C02_quick.cfg"), G("MC_C04", "MC_C04_quick.cfg"),
            G("MC_C10", "MC_C10_quick.cfg"), G("MC_C12", "MC_C12_quick.cfg"), G("MC_C14", "MC_C14_quick.cfg"),
        ], "drive": [D("strict", 50000)]},
        "require_ops": ["hyper.new", "strict.new", "ff.new", "ic.new_ff", "ops.new", "strict.identity", "strict.twist", "strict.singleton",
                        "strict.tensor_operations", "strict.compose", "strict.tensor", "functor.map_arrow", "optic.map_arrow", "lax.to_strict", "lax.from_strict"],
    },
    "C06": {
        "quick": {"gen": [G("MC_C06", "MC_C06_quick.cfg")]},
        "thorough": {"gen": [G("MC_C06", "MC_C06_thorough.cfg")], "drive": [D("arrays", 30000)]},
        "require_ops": ["ff.compose", "ff.coequalizer", "ff.coequalizer_universal", "ff.universal_labels", "ff.injections", "ff.transpose", "ff.new"],
    },
    "C07": {
        "quick": {"gen": [G("MC_C07", "MC_C07_quick.cfg")], "drive": [D("arrays", 3000)]},
        "thorough": {"gen": [G("MC_C07", "MC_C07_thorough.cfg")], "drive": [D("arrays", 50000)]},
        "require_ops": ["arr.gather", "arr.scatter", "arr.argsort", "arr.connected_components", "arr.sparse_bincount", "arr.segmented_sum", "arr.get_range", "arr.sort_by"],
    },
    "C08": {
        "quick": {"gen": [G("MC_C08", "MC_C08_quick.cfg")]},
        "thorough": {"gen": [G("MC_C08", "MC_C08_thorough.cfg")], "drive": [D("arrays", 30000)]},
        "require_ops": ["ic.new_ff", "ic.flatmap", "ic.map_indexes_ff", "ic.iter_ff", "ic.iter_sf", "ops.iter", "ic.flatmap_sources_ff", "ic.map_values"],
    },
    "C09": {
        "quick": {"gen": [G("MC_Lax", "MC_C09_quick.cfg"), G("MC_Quot", "MC_Quot_quick.cfg")], "drive": [D("laxcat", 2000, only=["lax.quotient"]), D("lax", 3000), D("glue", 3000, only=["lax.quotient", "lax.compose"])], "suite": {"tests": "--test lib lax", "ops": ["lax.quotient"], "max_nodes": 12, "max_edges": 12}},
        "thorough": {"gen": [G("MC_Lax", "MC_C09_thorough.cfg"), G("MC_Lax", "MC_C09_chains.cfg"), G("MC_Quot", "MC_Quot_thorough.cfg")], "drive": [D("laxcat", 30000, only=["lax.quotient"]), D("lax", 50000)]},
        "require_ops": ["lax.quotient", "lax.h.quotient", "lax.h.coequalizer"],
    },
    "C10": {
        "quick": {"gen": [G("MC_C10", "MC_C10_quick.cfg"), G("MC_C10", "MC_C10_two.cfg")], "drive": [D("laxcat", 3000, only=["lax.compose", "lax.lax_compose", "lax.tensor_assign", "lax.append", "lax.roundtrip_lax", "lax.to_strict", "lax.dagger"]), D("glue", 3000, only=["lax.compose"])]},
        "thorough": {"gen": [G("MC_C10", "MC_C10_thorough.cfg"), G("MC_C10", "MC_C10_two.cfg")], "drive": [D("laxcat", 50000, only=["lax.compose", "lax.lax_compose", "lax.tensor_assign", "lax.append", "lax.roundtrip_lax", "lax.to_strict", "lax.dagger"]), D("glue", 60000, only=["lax.compose"])]},
        "require_ops": ["lax.to_strict", "lax.from_strict", "lax.roundtrip_strict", "lax.roundtrip_lax", "lax.compose", "lax.lax_compose", "lax.tensor_assign", "lax.append", "lax.singleton"],
    },
    "C11": {
        "quick": {"gen": [G("MC_Lax", "MC_C11_quick.cfg"), G("MC_Lax", "MC_C11_twoq.cfg"), G("MC_Lax", "MC_C11_ids.cfg")], "drive": [D("lax", 3000)]},
        "thorough": {"gen": [G("MC_Lax", "MC_C11_thorough.cfg"), G("MC_Lax", "MC_C11_two.cfg"), G("MC_Lax", "MC_C11_ids.cfg")], "drive": [D("lax", 50000)]},
        "require_ops": ["lax.new_node", "lax.new_edge", "lax.new_operation", "lax.add_edge_source", "lax.add_edge_target", "lax.unify", "lax.delete_nodes",
                        "lax.delete_edges", "lax.map_nodes", "lax.serde_roundtrip", "lax.h.delete_nodes_witness"],
    },
    "C12": {
        "quick": {"gen": [G("MC_C12", "MC_C12_quick.cfg"), G("MC_C12", "MC_C12_wide.cfg"), G("MC_C12", "MC_C12_three.cfg")], "drive": [D("progs", 1500, only=["functor."]), D("strict", 2500, only=["functor.", "laxf.dyn", "laxf.identity"])], "suite": {"tests": "--test lib functor", "ops": ["functor.identity"], "max_nodes": 24, "max_edges": 12}},
        "thorough": {"gen": [G("MC_C12", "MC_C12_thorough.cfg"), G("MC_C12", "MC_C12_thorough_b.cfg"), G("MC_C12", "MC_C12_wide.cfg"), G("MC_C12", "MC_C12_three.cfg")], "drive": [D("progs", 30000, only=["functor."]), D("strict", 30000, only=["functor.", "laxf.dyn", "laxf.identity"])], "suite": {"tests": "--test lib functor", "ops": ["functor.identity"], "max_nodes": 40, "max_edges": 20}},
        "require_ops": ["functor.map_arrow", "laxf.dyn_map_arrow", "functor.laws"],
    },
    "C13": {
        "quick": {"gen": [G("MC_C12", "MC_C13_quick.cfg"), G("MC_C12", "MC_C13_two.cfg"), G("MC_C12", "MC_C13_wide.cfg")], "drive": [D("strict", 1500, only=["laxf.map_arrow_witness"])]},
        "thorough": {"gen": [G("MC_C12", "MC_C13_thorough.cfg"), G("MC_C12", "MC_C13_quick.cfg"), G("MC_C12", "MC_C13_two.cfg"), G("MC_C12", "MC_C13_wide.cfg"), G("MC_C12", "MC_C13_wide_thorough.cfg")], "drive": [D("strict", 20000, only=["laxf.map_arrow_witness"])]},
        "require_ops": ["laxf.try_define_map_arrow", "laxf.map_arrow_witness"],
    },
    "C14": {
        "quick": {"gen": [G("MC_C14", "MC_C14_quick.cfg")], "drive": [D("progs", 2500, only=["optic.", "laxf.optic"])]},
        "thorough": {"gen": [G("MC_C14", "MC_C14_thorough.cfg"), G("MC_C14", "MC_C14_thorough_b.cfg")], "drive": [D("progs", 40000, only=["optic.", "laxf.optic"])]},
        "require_ops": ["optic.map_arrow", "optic.map_adapted", "optic.eval_adapted", "optic.laws", "laxf.optic_map_arrow", "laxf.optic_map_adapted"],
    },
    "C15": {
        "quick": {"gen": [G("MC_C15", "MC_C15_quick.cfg"), G("MC_C15", "MC_C15_quick_b.cfg"), G("MC_C15", "MC_C15_wide.cfg")], "drive": [D("graphs", 4000, only=["strict.layer", "strict.layered_operations", "hook."])], "suite": {"tests": "--lib --test lib layer", "ops": ["strict.layer"], "max_nodes": 40, "max_edges": 40}},
        "thorough": {"gen": [G("MC_C15", "MC_C15_thorough.cfg"), G("MC_C15", "MC_C15_wide.cfg")], "drive": [D("graphs", 60000, only=["strict.layer", "strict.layered_operations", "hook."])], "suite": {"tests": "--lib --test lib layer", "ops": ["strict.layer"], "max_nodes": 40, "max_edges": 40}},
        "require_ops": ["strict.layer", "strict.layered_operations", "hook.kahn", "hook.converse", "hook.operation_adjacency", "hook.indegree"],
    },
    "C16": {
        "quick": {"gen": [G("MC_C16", "MC_C16_quick.cfg")], "drive": [D("graphs", 4000, only=["strict.eval"])]},
        "thorough": {"gen": [G("MC_C16", "MC_C16_thorough.cfg")], "drive": [D("graphs", 60000, only=["strict.eval"])]},
        "require_ops": ["strict.eval"],
    },
    "C17": {
        "quick": {"gen": [G("MC_C15", "MC_C17_quick.cfg"), G("MC_C15", "MC_C17_iface.cfg"), G("MC_C15", "MC_C15_wide.cfg"), G("MC_C15", "MC_C17_tail.cfg")], "drive": [D("graphs", 3000, only=["strict.is_", "hyper.", "hook.node_adjacency"])], "profiles": ["debug", "release"]},
        "thorough": {"gen": [G("MC_C15", "MC_C17_thorough.cfg"), G("MC_C15", "MC_C15_wide.cfg"), G("MC_C15", "MC_C17_tail.cfg")], "drive": [D("graphs", 50000, only=["strict.is_", "hyper.", "hook.node_adjacency"])], "profiles": ["debug", "release"]},
        "require_ops": ["strict.is_acyclic", "strict.is_monogamous", "hyper.in_degree", "hyper.out_degree", "hyper.is_acyclic"],
    },
    "C18": {
        "quick": {"gen": [G("MC_C18", "MC_C18_quick.cfg"), G("MC_C18", "MC_C18_mono.cfg"), G("MC_C18", "MC_C18_two.cfg")], "drive": [D("progs", 3000, only=["arrow."]), D("graphs", 4000, only=["arrow."])]},
        "thorough": {"gen": [G("MC_C18", "MC_C18_thorough.cfg"), G("MC_C18", "MC_C18_mono.cfg"), G("MC_C18", "MC_C18_two.cfg")], "drive": [D("progs", 50000, only=["arrow."]), D("graphs", 60000, only=["arrow."])]},
        "require_ops": ["arrow.new", "arrow.is_monomorphism", "arrow.is_convex_subgraph"],
    },
    "C19": {
        "quick": {"gen": [G("MC_C19", "MC_C19_quick.cfg"), G("MC_C19", "MC_C19_opsq.cfg")], "drive": [D("laxcat", 2000, only=["var.forget"]), D("progs", 3000, only=["var.script"])]},
        "thorough": {"gen": [G("MC_C19", "MC_C19_thorough.cfg"), G("MC_C19", "MC_C19_ops.cfg")], "drive": [D("laxcat", 30000, only=["var.forget"]), D("progs", 40000, only=["var.script"])]},
        "require_ops": ["var.script", "var.forget", "var.forget_monogamous", "var.forget_eval"],
    },
    "C20": {
        "quick": {"advseeds": 4, "gen": [
            G("MC_C20", "MC_C20_quick.cfg", model_only=True),
            G("MC_C07", "MC_C07_small.cfg", backends=ADV), G("MC_C01", "MC_C01_small.cfg", backends=ADV),
            G("MC_C04", "MC_C04_small.cfg", backends=ADV), G("MC_C12", "MC_C12_small.cfg", backends=ADV),
            G("MC_C14", "MC_C14_small.cfg", backends=ADV), G("MC_C15", "MC_C15_small.cfg", backends=ADV),
            G("MC_C16", "MC_C16_small.cfg", backends=ADV), G("MC_C18", "MC_C18_small.cfg", backends=ADV),
        ], "drive": [D("strict", 2000, backend="adv"), D("arrays", 2000, backend="adv")]},
        "thorough": {"advseeds": 16, "gen": [
            G("MC_C20", "MC_C20_thorough.cfg", model_only=True),
            G("MC_C07", "MC_C07_quick.cfg", backends=ADV), G("MC_C01", "MC_C01_quick.cfg", backends=ADV),
            G("MC_C04", "MC_C04_quick.cfg", backends=ADV), G("MC_C12", "MC_C12_quick.cfg", backends=ADV),
            G("MC_C14", "MC_C14_quick.cfg", backends=ADV), G("MC_C15", "MC_C15_quick.cfg", backends=ADV),
            G("MC_C16", "MC_C16_quick.cfg", backends=ADV), G("MC_C18", "MC_C18_quick.cfg", backends=ADV),
        ], "drive": [D("strict", 30000, backend="adv"), D("arrays", 30000, backend="adv")]},
        "require_ops": ["arr.argsort", "arr.connected_components", "arr.sparse_bincount", "arr.scatter", "strict.compose", "functor.map_arrow",
                        "optic.eval_adapted", "strict.layer", "strict.eval", "arrow.is_convex_subgraph", "strict.is_monogamous"],
    },
}

_T = ("TLA+ specification model-checked with TLC; TLC-generated cases replayed on the implementation and every recorded "
      "observation trace-validated against the specification (spec/Trace.tla)")

META = {
    "C01": {"text": "TLC enumerates all pairs of diagrams in the bound (composable or not), checks the gluing theorem on the reference composition (identified iff forced, edges/labels/interfaces carried), every pair is composed by the library and the result must be deep-well-formed and isomorphic (interfaces pinned) to the reference gluing; None on type mismatch; plus recorded chains of compositions from the seeded driver."},
    "C02": {"text": "Equality, field for field, of strict and lax tensor (pending unifications included) with the juxtaposition computed by the specification over all pairs in the bound; associativity and unit laws on the nose over all triples (both sides computed by the library); model invariants: the same laws on the reference operators."},
    "C03": {"text": "All law instances in the bound (associativity, units, interchange, naturality and involutivity of the symmetry, both hexagons): both sides computed by the library, compared by the specification's isomorphism decision and with the reference expression; the laws are also model-checked on the reference operators. Associativity and interchange are also recorded around long, non-injective, interleaving gluing boundaries (glue driver)."},
    "C04": {"text": "Dagger equality/involution/contravariance/tensor laws over all pairs of diagrams, spider fusion over all pairs of labelled cospans in the bound (result discrete and isomorphic to the pushout spider, computed independently), exact accept/reject of spider construction on raw legs; strict and lax entry points. The dagger calls recorded from the repository's own randomized test suite (recorder hook) are validated with the same exact relation."},
    "C05": {"text": "Checked constructors on raw, possibly ill-formed data (accept iff the documented condition; a rejection names a failing condition) plus the deep well-formedness and typing conjunct of every diagram-returning operation (constructors, categorical operations, functor/optic application, conversions), also on outputs fed back as inputs by the driver."},
    "C06": {"text": "Every finite-function operation on all tables in the bound against its set-theoretic definition; coequalizer judged by the relation (any numbering); universal map exists iff constant on fibres; the universal property itself is model-checked exhaustively."},
    "C07": {"text": "Every array primitive of the Vec backend on all small arrays / index arrays / range forms / edge lists in the bound against scalar definitions, contracts where the interface leaves a choice; default-method formulas model-checked against direct definitions. (Executable-reference use of the specification; no temporal content.) Connected components are also recorded on merge orders that are hard for union-find (tournaments, paths, stars, up to 70 nodes)."},
    "C08": {"text": "Every segmented-array operation as a list-of-lists function plus the representation invariant; checked constructors accept iff sizes sum to the value length; iterator machine: all scripts of next/len/size_hint calls up to the bound replayed on both iterators and validated step by step."},
    "C09": {"text": "The lax builder as a TLA+ state machine: every reachable state in the bound, quotient from each; the relation accepts any numbering of merged classes, demands label-uniform fibres, rewritten references, cleared pairs, idempotence, and an unchanged diagram on failure; action properties FailAtomic / QuotientClears model-checked; recorded histories interleaving unify/quotient/edits."},
    "C10": {"text": "Round trips are equalities; strictification of lax compose/tensor/identity/symmetry/spider/dagger/singleton results is isomorphic to the strict operation on strictified arguments; definedness of checked and unchecked lax composition; in-place variants equal the pure ones; over all lax/strict diagrams and pairs in the bound."},
    "C11": {"text": "One implementation test per edge of TLC's state graph of the lax builder (every reachable state x every call x every argument in the bound, including duplicate and out-of-range identifiers), all public fields and returned ids compared with the list model; append-only action property; serde JSON field names and round trip; recorded histories of up to 120 calls validated with the state tracked by the specification."},
    "C12": {"text": "Functors are data: TLC enumerates object maps (lists of length 0, 1, 2) and operation images (all diagrams of the right type in the bound); the library's result must be isomorphic to generator-wise substitution, with type F(A) -> F(B); functor laws; strict trait and lax trait through DynFunctor; model invariant: the transcribed spider decomposition is isomorphic to substitution. The identity-functor calls recorded from the repository's own randomized test suite (they run the general spider decomposition) are validated against 'isomorphic to the argument, same type'."},
    "C13": {"text": "Native lax functor path: refusal iff pending unifications; quotiented result isomorphic to substitution; witness has one segment per input node of length |F(label)| carrying F(label) in order, and pushes the interfaces through the quotient map."},
    "C14": {"text": "Table-driven optics (forward/reverse object maps, residuals, images enumerated by TLC): type of map_arrow and adapt, isomorphism with the generator-wise optic applied by substitution, functoriality; derivative clause: all monogamous acyclic polynomial circuits with <= K operations under the standard lenses: adapted optic monogamous, evaluates to (f(x), J^T dy) as computed by adjoint propagation in the specification; chain rule model-checked on the specification."},
    "C15": {"text": "All diagrams of the listed shapes: any valid minimal layering is accepted (unvisited = on/downstream of a cycle, strict order along dependencies, depth = longest chain, grouped form); hooks judge converse/adjacency/in-degree/kahn directly; model invariant: the transcribed level-synchronous Kahn ends in a valid minimal layering. The layer calls recorded from the repository's own layering tests are validated with the same relation."},
    "C16": {"text": "All typed single-writer diagrams in the bound (hence all numberings) and all monogamous circuits with <= 3 operations: result equals the recursive reference interpreter, callback batches contain every hyperedge once with reference inputs, None iff the dependency relation is cyclic; model invariants: layered evaluation = reference, invariance under renumbering."},
    "C17": {"text": "is_acyclic, is_monogamous, in/out degree on all diagrams of the listed shapes, in debug and release profiles; definitions by reachability and counting; a panic never conforms; model invariants: bincount formula <=> definition, node-level Kahn <=> no node reaches itself."},
    "C18": {"text": "All pairs of small hypergraphs with all pairs of tables (natural or not, typed or mistyped): Ok iff morphism, Err names a failing condition; mono iff both injective; convexity of all sub-hypergraph inclusions by brute force over paths; model invariant: the transcribed two-layer search decides the brute-force definition."},
    "C19": {"text": "All Var-builder scripts up to the bound (sharing, multi-result operations, leaked handles) compared with the list model of the builder; forget / forget_monogamous on all lax terms in the bound isomorphic to generator-wise substitution of the forgetting table, type preserved, a panic never conforms; evaluation of forget(build(script)) equals the reference with variables read as copies."},
    "C20": {"text": "Model level: every resolution of the open choices (argsort ties, component numbering, scatter filler/duplicates) explored by TLC for converse and composition, results satisfy the relations. Implementation level: the strict algorithms instantiated at an adversarial conforming backend defined in the harness (several seeds), every primitive answer of that backend judged against the array contract and every algorithm result judged by the same relations as for the Vec backend."},
}
for _k in META:
    META[_k].setdefault("technique", _T)
