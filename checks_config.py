"""Per-property plans: which bounded instances of the specification GEN explores, which harness
profiles/backends execute the cases, and what the random driver adds, per tier."""

def G(module, cfg, **kw):
    d = dict(module=module, cfg=cfg)
    d.update(kw)
    return d

CHECKS = {
    "C01": {
        "quick": {"gen": [G("MC_C01", "MC_C01_quick.cfg")]},
        "thorough": {"gen": [G("MC_C01", "MC_C01_quick.cfg")]},
        "require_ops": ["strict.compose"],
    },
}
META = {}
