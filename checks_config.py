"""Per-property plans: which bounded instances of the specification GEN explores, which harness
profiles/backends execute the cases, and what the random driver adds, per tier."""

def G(module, cfg, **kw):
    d = dict(module=module, cfg=cfg)
    d.update(kw)
    return d

CHECKS = {
    "C02": {
        "quick": {"gen": [G("MC_C02", "MC_C02_quick.cfg")]},
        "thorough": {"gen": [G("MC_C02", "MC_C02_thorough.cfg")]},
        "require_ops": ["strict.tensor", "lax.tensor", "law.tensor_assoc", "lax.tensor3"],
    },
    "C03": {
        "quick": {"gen": [G("MC_C03", "MC_C03_quick.cfg")]},
        "thorough": {"gen": [G("MC_C03", "MC_C03_thorough.cfg")]},
        "require_ops": ["law.assoc", "law.unit", "law.interchange", "law.twist_natural", "law.twist_inverse", "law.hexagon"],
    },
    "C04": {
        "quick": {"gen": [G("MC_C04", "MC_C04_quick.cfg")]},
        "thorough": {"gen": [G("MC_C04", "MC_C04_thorough.cfg")]},
        "require_ops": ["law.dagger_compose", "law.dagger_tensor", "law.spider_fusion", "strict.spider", "lax.spider", "strict.dagger", "lax.dagger"],
    },
    "C01": {
        "quick": {"gen": [G("MC_C01", "MC_C01_quick.cfg")]},
        "thorough": {"gen": [G("MC_C01", "MC_C01_quick.cfg")]},
        "require_ops": ["strict.compose"],
    },
}
META = {}
